"""Session rules: C11 (clean session: loss fails everything, nothing carries
over) and C12 (persistent session: survive loss, resume at next CONNACK)."""
from sim.rules_wire import Rule

PUBB = 2


def _mode(L, addr, before_ci=None):
    """Clean flag of the last connection on addr that had a connect() accepted
    (optionally: among connections older than before_ci).  None if none."""
    m = None
    for ci in sorted(L.conns):
        c = L.conns[ci]
        if c.addr != addr or c.connect_called_seq is None:
            continue
        if before_ci is not None and ci >= before_ci:
            continue
        m = c.clean
    return m


class SessionRules(Rule):
    def after(self, d):
        if d.kind == "lost" and d.lost_conn is not None:
            self._loss(d, d.lost_conn)
        if d.connack is not None and d.connack["tag"] == "connack-ok":
            self._connack(d, d.conn)
        # M3: what an earlier connection left held back is released once CONNACK has arrived, not before
        L = self.L
        for op in d.first_tx:
            rq = op.req
            if rq is None or rq.kind != "publish" or rq.ci == op.ci:
                continue
            c = L.conns.get(op.ci)
            if c is None or c.addr != rq.addr:
                continue
            if c.connack_seq is None or d.seq < c.connack_seq:
                L.probe("carried_over_released_before_connack")
                L.violate("C12", "M3", "held-back-released-before-CONNACK:%s" % ("clean" if c.clean else "persistent"),
                          "publish rid=%d, held back by an earlier connection, first written on conn %d before its CONNACK"
                          % (rq.rid, c.ci))

    # ------------------------------------------------------------------ loss

    def _loss(self, d, c):
        L = self.L
        pend = [r for r in d.pending_at_loss if r.kind in ("subscribe", "unsubscribe") or (r.kind == "publish" and r.qos)]
        if pend:
            L.probe("loss_with_pending")
        opened = c.connect_called_seq is not None
        if opened and c.clean:
            L.probe("clean_loss")
            for rq in pend:
                st = d.stage_at_loss.get(rq.rid, "?")
                own = rq.ci == c.ci
                if not own and c.connack_seq is None:
                    continue     # I6: the clean connection never got as far as clearing the session
                f = rq.fires[0] if rq.fires else None
                if f is None or f[0] != d.seq:
                    L.probe("clean_loss_pending_%s" % st)
                    L.violate("C11", "L1", "not-failed:%s:%s" % (rq.kind, "held" if st == "held" else "sent"),
                              "%s rid=%d (%s) still pending after its clean-session connection was lost" % (rq.kind, rq.rid, st))
                    L.violate("C04", "H4", "pending-not-failed-at-clean-loss:%s:%s" % (rq.kind, "connected" if c.connack_seq else "handshake"),
                              "%s rid=%d (%s) was not failed when its clean-session connection was lost (%s)"
                              % (rq.kind, rq.rid, st, "after CONNACK" if c.connack_seq else "during the handshake"))
                    continue
                if f[1]:
                    L.violate("C11", "L1", "succeeded-at-loss:%s" % rq.kind, "%s rid=%d succeeded in the loss dispatch" % (rq.kind, rq.rid))
                    continue
                name, loss_ci = f[2][0], f[2][1]
                if loss_ci != c.ci and not (not own and name == "MQTTSessionCleared"):
                    L.violate("C11", "L1", "wrong-reason:%s:%s" % (rq.kind, name),
                              "%s rid=%d failed with %s, not with the reason of the loss" % (rq.kind, rq.rid, name))
            # L3 no timer of the old connection's requests survives
            for tm in L.live_timers(ci=c.ci):
                if tm["kind"] in ("retry", "extra"):
                    L.violate("C11", "L3", "timer-survives:%s" % (tm["pkt"].type if tm.get("pkt") else "extra"),
                              "a retry timer of conn %d is still pending after its clean-session loss" % c.ci)
        else:
            # persistent (or never opened while the address' session is persistent)
            mode = c.clean if opened else _mode(L, c.addr, c.ci)
            if mode is False:
                L.probe("persistent_loss")
                if not opened:
                    L.probe("persistent_rebuilt_lost_before_connect")
                for rq in pend:
                    if rq.kind == "publish":
                        rq.survived_loss = True
                for (rid, ok, val) in d.fires:
                    rq = L.reqs.get(rid)
                    if rq is None or rq.kind != "publish" or not rq.accepted or not rq.qos or rq.seq >= d.seq:
                        continue
                    L.violate("C12", "M1", "publish-failed-at-loss:%s" % ("opened" if opened else "before-connect"),
                              "publish rid=%d fired (%s) when a persistent-session connection was lost" % (rid, val))
                    L.violate("C04", "H4", "pending-not-preserved-at-persistent-loss",
                              "publish rid=%d fired (%s) when a persistent-session connection was lost" % (rid, val))

    # --------------------------------------------------------------- CONNACK

    def _connack(self, d, c):
        L = self.L
        s = L.session(c.addr)
        pubs = [r for r in s.reqs if r.kind == "publish" and r.qos and r.pending_before(d.seq)]
        carried = [r for r in pubs if r.ci != c.ci and r.dead_after is None]
        own = [r for r in pubs if r.ci == c.ci]
        if carried:
            L.probe("connack_with_carried_over_%s" % ("clean" if c.clean else "persistent"))
        if own:
            L.probe("publish_before_connack")
        mine = [op for op in d.writes if op.ci == c.ci]
        if not c.clean:
            order = []
            for rq in carried:
                had_tx = [x for x in rq.tx if x.seq < d.seq]
                if not had_tx:
                    continue
                now_pub = [op for op in mine if op.req is rq and op.type == "PUBLISH"]
                now_rel = [op for op in mine if op.req is rq and op.type == "PUBREL"]
                released = any(x.seq < d.seq for x in rq.rel_tx)
                if any(f[0] == d.seq for f in rq.fires):
                    L.violate("C12", "M1", "failed-at-resume", "carried-over publish rid=%d fired at the resuming CONNACK" % rq.rid)
                    continue
                if released:
                    L.probe("resume_pubrel")
                    if len(now_rel) != 1:
                        L.violate("C12", "M2", "PUBREL-resent:%d" % len(now_rel),
                                  "unacknowledged PUBREL id %r written %d times at the resuming CONNACK" % (rq.msgId, len(now_rel)))
                    if now_pub:
                        L.violate("C12", "M2", "PUBLISH-resent-after-PUBREL",
                                  "PUBLISH id %r re-sent at resume although its PUBREL had been sent" % rq.msgId)
                else:
                    L.probe("resume_publish")
                    if len(now_pub) != 1:
                        L.violate("C12", "M2", "PUBLISH-resent:%d" % len(now_pub),
                                  "unacknowledged PUBLISH id %r written %d times at the resuming CONNACK" % (rq.msgId, len(now_pub)))
                    else:
                        order.append((now_pub[0].n, (had_tx[0].seq, had_tx[0].ci, had_tx[0].n), rq))
                    if now_rel:
                        L.violate("C12", "M2", "PUBREL-without-PUBREC", "PUBREL id %r written at resume without PUBREC" % rq.msgId)
            # a message the earlier connection only held back is released once
            for rq in carried:
                if not [x for x in rq.tx if x.seq < d.seq]:
                    now_pub = [op for op in mine if op.req is rq and op.type == "PUBLISH"]
                    if len(now_pub) > 1:
                        L.violate("C12", "M3", "held-back-released-twice",
                                  "publish rid=%d, held back by the earlier connection, written %d times at the resuming CONNACK"
                                  % (rq.rid, len(now_pub)))
            # held-back messages are released as the window allows
            if s.fifo and (c.profile & PUBB) and c.closing is None and not d.aborted:
                head = [r for r in s.fifo if not (r.fires and r.fires[0][0] == d.seq and not r.fires[0][1])]
                # window occupancy when the CONNACK was handled: an acknowledgement that follows it in
                # the same chunk frees its slot only afterwards (and a PUBREC need not trigger a refill)
                inflight = sum(1 for r in s.reqs if r.kind == "publish" and r.qos and r.tx
                               and ((r.pending and r.ack1 is None) or r.ack1 == d.seq))
                if head and (not head[0].qos or inflight < c.window):
                    L.probe("held_back_at_resume")
                    L.violate("C12", "M3", "held-back-not-released:%s" % ("qos0" if not head[0].qos else "window-has-room"),
                              "after the resuming CONNACK %d message(s) are still held back although %d of %d window slots are in use"
                              % (len(head), inflight, c.window))
            order.sort(key=lambda x: x[0])
            orig = [x[1] for x in order]
            if orig != sorted(orig):
                L.violate("C12", "M2", "resume-order", "carried-over PUBLISH packets re-sent out of their original order")
        else:
            for rq in carried:
                f = rq.fires[0] if rq.fires else None
                st = "held" if not rq.tx else "sent"
                if f is None:
                    L.violate("C12", "M4", "carried-not-cleared:%s" % st,
                              "carried-over publish rid=%d (%s) still pending after a clean-session CONNACK" % (rq.rid, st))
                elif f[1]:
                    L.violate("C12", "M4", "carried-succeeded", "carried-over publish rid=%d succeeded at a clean CONNACK" % rq.rid)
                elif f[2][0] != "MQTTSessionCleared":
                    L.violate("C12", "M4", "wrong-reason:%s" % f[2][0],
                              "carried-over publish rid=%d failed with %s instead of MQTTSessionCleared" % (rq.rid, f[2][0]))
        # M5: what was requested on this connection is neither failed nor re-sent ... nor dropped:
        # after a clean CONNACK nothing carried over is left, so a QoS 0 message at the head
        # of what is still unsent can only be this connection's own, and nothing holds it back
        if c.clean and c.closing is None and not d.aborted:
            head = [r for r in s.fifo if not (r.fires and r.fires[0][0] == d.seq and not r.fires[0][1] and r.qos)]
            if head and not head[0].qos and head[0].ci == c.ci and head[0].seq < d.seq:
                L.violate("C12", "M5", "own-qos0-not-sent:clean",
                          "QoS 0 publish rid=%d requested on this connection before CONNACK was not written by CONNACK time"
                          % head[0].rid)
        for rq in own:
            if any(f[0] == d.seq and not f[1] for f in rq.fires):
                L.violate("C12", "M5", "own-request-failed:%s" % ("clean" if c.clean else "persistent"),
                          "publish rid=%d requested on this connection before CONNACK was failed (%s) at CONNACK"
                          % (rq.rid, rq.fires[0][2][0]))
            had = [x for x in rq.tx if x.seq < d.seq]
            now = [op for op in mine if op.req is rq and op.type in ("PUBLISH", "PUBREL") and not op.first]
            if had and now:
                L.violate("C12", "M5", "own-request-resent:%s" % ("clean" if c.clean else "persistent"),
                          "publish rid=%d requested on this connection was written again at its CONNACK" % rq.rid)

    def finish(self):
        L = self.L
        if not getattr(L, "drained", False):
            return
        for rq in L.reqs.values():
            if rq.kind == "publish" and rq.accepted and rq.qos and rq.pending and getattr(rq, "survived_loss", False):
                L.violate("C12", "M3", "never-completed:%s" % rq.stage(),
                          "publish rid=%d carried over a persistent-session loss never completed (%s)" % (rq.rid, rq.stage()))
