"""Differential / metamorphic simulations:

  C03  segmentation independence   (same broker bytes, different chunk compositions)
  C19  address isolation           (solo runs vs. interleaved run on one factory)
  C20  rule B3                     (schedule with the rejected calls deleted)
  C17  long wrap                   (> 65535 identifier allocations with requests kept unfinished)
"""
import hashlib
import json
import os
import random
import time
import itertools
from concurrent.futures import ProcessPoolExecutor
import multiprocessing

from sim import refcodec as rc
from sim.world import World
from sim.engine import Ledger
from sim import gen as G
from sim import runner

VERIF = os.path.dirname(os.path.dirname(os.path.abspath(__file__)))


# ------------------------------------------------------------ observation log

class Renamer(object):
    def __init__(self):
        self.ids = {}
        self.nids = 0
        self.born = {}
        self.disp = 0
        self.rids = {}
        self.cis = {}
        self.tids = {}

    def mid(self, i):
        if i is None:
            return None
        if i not in self.ids:
            self.ids[i] = "#%d" % self.nids
            self.born[i] = self.disp
            self.nids += 1
        return self.ids[i]

    def release(self, i):
        """The request that held identifier i is finished: the next use of the same
        number is another identifier as far as behaviour is concerned."""
        self.ids.pop(i, None)

    def rid(self, r):
        if r not in self.rids:
            self.rids[r] = len(self.rids)
        return self.rids[r]

    def ci(self, c):
        if c not in self.cis:
            self.cis[c] = len(self.cis)
        return self.cis[c]

    def tid(self, t):
        if t not in self.tids:
            self.tids[t] = len(self.tids)
        return self.tids[t]


def _norm_packets(raw, ver, rn, rename_ids):
    """bytes -> list of comparable packet descriptions (identifiers renamed)."""
    if not rename_ids:
        return raw.hex()
    frames, pos, err = rc.split_stream(raw, 0)
    out = []
    for f in frames:
        try:
            p = rc.decode(f, ver, strict=False)
        except rc.Malformed:
            out.append(("raw", f.hex()))
            continue
        d = dict(p)
        # only identifiers the client allocates are renamed; PUBACK/PUBREC/PUBCOMP echo
        # identifiers chosen by the broker
        if "id" in d and d["id"] is not None and d["type"] in ("PUBLISH", "PUBREL", "SUBSCRIBE", "UNSUBSCRIBE"):
            d["id"] = rn.mid(d["id"])
        if "payload" in d:
            d["payload"] = hashlib.sha1(d["payload"]).hexdigest()[:12] + ":%d" % len(d["payload"])
        for k in ("will_message", "password"):
            if d.get(k) is not None:
                d[k] = bytes(d[k]).hex()
        out.append(tuple(sorted((k, repr(v)) for k, v in d.items())))
    if pos != len(raw):
        out.append(("partial", raw[pos:].hex()))
    return tuple(out)


def obs_log(w, addr=None, rename_ids=False, with_time=True, from_seq=0, skip_rids=(), with_dispatch=True,
            with_timers=True):
    """The observable behaviour of the client as a list of comparable tuples."""
    rn = Renamer()
    out = []
    conn_addr = dict((c.idx, c.addr) for c in w.conns)
    conn_ver = {}
    cur_ci = None
    skip_disp = False
    rid_kind = dict((r, q.get("m")) for r, q in w.reqs.items())
    rid_id = dict((e[3], e[5]) for e in w.events if e[0] == "R" and e[4] == "deferred" and isinstance(e[5], int)
                  and not isinstance(e[5], bool))
    id_owner = {}
    for e in w.events:
        k = e[0]
        seq = e[1]
        if k == "D":
            cur_ci = e[5]
            skip_disp = False
            rn.disp += 1
        if rename_ids and ((k == "D" and e[3] == "api") or k == "A"):
            # the number this call is about to be given is a new identifier, whatever request
            # carried the same number before (it is finished, or died with its session)
            info_ = e[6] if k == "D" else e[4]
            if isinstance(info_, dict) and info_.get("rid") in rid_id:
                rn.release(rid_id[info_["rid"]])
                id_owner[rid_id[info_["rid"]]] = info_["rid"]
            if e[3] == "api" and isinstance(e[6], dict) and e[6].get("rid") in skip_rids:
                skip_disp = True
        if seq <= from_seq or skip_disp:
            continue
        t = (round(e[2], 6),) if with_time else ()
        if k == "D":
            if addr is not None and e[4] != addr:
                continue
            if with_dispatch:
                info = e[6]
                what = e[3]
                if what == "api":
                    what = "api:%s" % info.get("m")
                elif what == "timer":
                    what = "timer"
                out.append(("D", what) + t)
        elif k == "W":
            if addr is not None and conn_addr.get(e[3]) != addr:
                continue
            ver = conn_ver.get(e[3], rc.V311)
            if e[4][:1] == b"\x10":
                try:
                    p = rc.decode(e[4], rc.V311, strict=False)
                    ver = conn_ver[e[3]] = rc.V31 if p.get("level") == 3 else rc.V311
                except rc.Malformed:
                    pass
            out.append(("W", rn.ci(e[3]), _norm_packets(e[4], ver, rn, rename_ids), e[5]) + t)
        elif k == "X":
            if addr is not None and conn_addr.get(e[3]) != addr:
                continue
            out.append(("X", rn.ci(e[3]), e[4]) + t)
        elif k == "CB":
            if addr is not None and conn_addr.get(e[3]) != addr:
                continue
            args = e[5]
            if rename_ids and e[4] == "onPublish" and len(args) == 6:
                args = args[:5] + (("in", args[5]),)
            out.append(("CB", rn.ci(e[3]), e[4], args) + t)
        elif k == "F":
            rq = w.reqs.get(e[3])
            if rq is None or (addr is not None and rq["addr"] != addr) or e[3] in skip_rids:
                continue
            val = e[5]
            if rename_ids and e[4] and rid_kind.get(e[3]) in ("publish", "unsubscribe") and isinstance(val, int) \
                    and not isinstance(val, bool):
                val = rn.mid(val)
            if not e[4] and isinstance(val, tuple) and len(val) == 3 and val[1] is not None:
                val = (val[0], rn.ci(val[1]), val[2])
            out.append(("F", rn.rid(e[3]), e[4], val) + t)
            if rename_ids and e[3] in rid_id and id_owner.get(rid_id[e[3]]) == e[3]:
                rn.release(rid_id[e[3]])
        elif k == "R":
            rq = w.reqs.get(e[3])
            if rq is None or (addr is not None and rq["addr"] != addr) or e[3] in skip_rids:
                continue
            val = e[5]
            if rename_ids and e[4] == "deferred" and isinstance(val, int) and not isinstance(val, bool):
                val = rn.mid(val)
            out.append(("R", rn.rid(e[3]), e[4], val))
        elif k == "TN" and with_timers:
            if addr is not None and conn_addr.get(e[6]) != addr:
                continue
            out.append(("TN", rn.tid(e[3]), round(e[4], 6), "notify" if e[5] == "notify" else ("loop" if e[5] == "LoopingCall" else "t")))
        elif k == "TC" and with_timers:
            if e[3] in rn.tids:
                out.append(("TC", rn.tid(e[3])))
            elif addr is None:
                out.append(("TC", rn.tid(e[3])))
        elif k == "E":
            if addr is not None and (cur_ci is None or conn_addr.get(cur_ci) != addr):
                continue
            out.append(("E", e[3], e[4]) + t)
    return out


def pending_table(w, addr=None):
    conn_addr = dict((c.idx, c.addr) for c in w.conns)
    out = []
    for (tid, due, label, ci) in w.pending_timers():
        if addr is not None and conn_addr.get(ci) != addr:
            continue
        out.append((round(due, 6), "notify" if label == "notify" else ("loop" if label == "LoopingCall" else "t")))
    return sorted(out)


def first_diff(a, b):
    n = min(len(a), len(b))
    for i in range(n):
        if a[i] != b[i]:
            return i, a[i], b[i]
    if len(a) != len(b):
        return n, (a[n] if len(a) > n else "<end>"), (b[n] if len(b) > n else "<end>")
    return None


# =========================================================================== C03

def c03_case(rng, size_class):
    """A prefix history (steps) and a broker stream S (list of packet dicts)."""
    prof = rng.choice([3, 3, 2, 1])
    ver = rng.choice([3, 4])
    clean = rng.random() < 0.5
    ka = rng.choice([0, 0, 0, 5, 60])
    vv = {"$": "v31"} if ver == 3 else {"$": "v311"}
    pre = [{"op": "app.build", "addr": "A"}]
    win = rng.choice([1, 2, 4, 16])
    if win != 1:
        pre.append({"op": "app.call", "addr": "A", "m": "setWindowSize", "a": [win]})
    pre.append({"op": "app.call", "addr": "A", "m": "connect", "a": ["seg"], "k": {"keepalive": ka, "cleanStart": clean, "version": vv}})
    connack_in_stream = rng.random() < 0.4
    if not connack_in_stream:
        pre.append({"op": "brk.connack", "addr": "A", "rc": 0, "sp": rng.random() < 0.5})
    npub = rng.randint(0, 4) if prof & 2 else 0
    pub_ids = []
    nid = 0
    for i in range(npub):
        q = rng.randint(0, 2)
        pre.append({"op": "app.call", "addr": "A", "m": "publish",
                    "k": {"topic": G.gen_topic(rng), "message": G.gen_text(rng, rng.randint(0, 5)), "qos": q}})
        if q:
            nid += 1
            pub_ids.append((nid, q))
    sub_ids, unsub_ids = [], []
    if prof & 1 and not connack_in_stream:
        for i in range(rng.randint(0, 2)):
            pre.append({"op": "app.call", "addr": "A", "m": "subscribe", "a": [G.gen_topic(rng, True), rng.randint(0, 2)]})
            nid += 1
            sub_ids.append(nid)
        if rng.random() < 0.4:
            pre.append({"op": "app.call", "addr": "A", "m": "unsubscribe", "a": [G.gen_topic(rng, True)]})
            nid += 2          # the client burns one identifier per unsubscribe()
            unsub_ids.append(nid)
    # ---- the broker stream
    S = []
    if connack_in_stream:
        S.append({"type": "CONNACK", "rc": 0, "session_present": rng.random() < 0.5})
    n = {"short": rng.randint(1, 3), "medium": rng.randint(2, 8), "long": rng.randint(4, 14)}[size_class]
    in_q2 = []
    for i in range(n):
        kinds = ["PINGRESP"]
        if prof & 2:
            kinds += ["PUBACK", "PUBREC", "PUBCOMP", "PUBACK", "PUBREC", "PUBCOMP"]
        if prof & 1:
            kinds += ["PUBLISH", "PUBLISH", "PUBLISH", "PUBREL", "SUBACK", "UNSUBACK"]
        t = rng.choice(kinds)
        if t in ("PUBACK", "PUBREC", "PUBCOMP"):
            fit = [i for (i, q) in pub_ids if (q == 1) == (t == "PUBACK")]
            mid = rng.choice(fit) if (fit and rng.random() < 0.8) else rng.choice([40000, 50000, 65535])
            S.append({"type": t, "id": mid})
        elif t == "SUBACK":
            mid = rng.choice(sub_ids) if (sub_ids and rng.random() < 0.8) else 41000
            S.append({"type": t, "id": mid, "granted": [rng.choice([0, 1, 2, 0x80]) for _ in range(rng.randint(1, 3))]})
        elif t == "UNSUBACK":
            mid = rng.choice(unsub_ids) if (unsub_ids and rng.random() < 0.8) else 42000
            S.append({"type": t, "id": mid})
        elif t == "PUBLISH":
            q = rng.randint(0, 2)
            if size_class == "short":
                pl = bytes(rng.randrange(256) for _ in range(rng.randint(0, 2)))
            else:
                ln = rng.choice([0, 1, 5, 20, 120, 127, 128, 130, 300, 16383, 16384, 16390] if size_class == "long"
                                else [0, 1, 5, 20, 120, 127, 128, 130])
                pl = bytes((i * 7 + ln) & 0xFF for i in range(ln))
            mid = rng.choice([1, 2, 3, 9, 300, 65535]) if q else None
            S.append({"type": "PUBLISH", "qos": q, "dup": q > 0 and rng.random() < 0.3, "retain": rng.random() < 0.3,
                      "topic": G.gen_topic(rng) if size_class != "short" else "t", "payload": pl, "id": mid})
            if q == 2:
                in_q2.append(mid)
        elif t == "PUBREL":
            mid = rng.choice(in_q2) if (in_q2 and rng.random() < 0.8) else rng.choice([7, 4000])
            S.append({"type": "PUBREL", "id": mid})
        else:
            S.append({"type": "PINGRESP"})
    cfg = {"profile": prof, "version": ver, "jitter": rng.choice(["zero", "half", "rand", "alt"]), "jseed": rng.randrange(1 << 30),
           "family": "c03"}
    return cfg, pre, S, ver


def _c03_run(ns, cfg, pre, frames, cuts, times=None):
    """Execute prefix, then feed `frames` (list of bytes) under the composition
    `cuts` (sorted byte offsets into the concatenation where a chunk ends).
    times: None (burst) or list of arrival times per frame (timed mode)."""
    w = World(ns, cfg)
    w.observer = None
    for st in pre:
        w.run_step(st)
    mark = w.seq
    conn = w.live("A")
    if conn is None:
        return None, None, None
    stream = b"".join(frames)
    if times is None:
        conn.inb.extend(stream)
        last = 0
        for c in list(cuts) + [len(stream)]:
            if c <= last:
                continue
            if conn.lost or conn.transport.phase != "open":
                break
            w._deliver(conn, c - last)
            last = c
    else:
        # timed: cuts is a list (per frame) of lists of (offset_in_frame, time)
        for fr, tarr, pieces in zip(frames, times, cuts):
            pos = 0
            for (off, tt) in pieces:
                w._run_step({"op": "time.advance", "dt": max(0.0, tt - w.now)})
                if conn.lost or conn.transport.phase != "open":
                    break
                conn.inb.extend(fr[pos:off])
                w._deliver(conn, off - pos)
                pos = off
            w._run_step({"op": "time.advance", "dt": max(0.0, tarr - w.now)})
            if conn.lost or conn.transport.phase != "open":
                break
            conn.inb.extend(fr[pos:])
            w._deliver(conn, len(fr) - pos)
    log = obs_log(w, with_time=(times is not None), from_seq=mark, with_dispatch=False, with_timers=False)
    # timers: compare as a table of what is pending at the end (+ what got cancelled is implied)
    return log, pending_table(w), w


def _c03_run_mid(ns, cfg, pre, frames, i, k, steps, join):
    """G3: frames[:i] one per chunk, then the first k bytes of frame i (k = 0: none;
    join: in the chunk of frame i-1), then the application steps, then the rest of
    frame i and the remaining frames one per chunk."""
    w = World(ns, cfg)
    w.observer = None
    for st in pre:
        w.run_step(st)
    mark = w.seq
    conn = w.live("A")
    if conn is None:
        return None, None, None

    def up():
        return not (conn.lost or conn.transport.phase != "open")

    def feed(data):
        if data and up():
            conn.inb.extend(data)
            w._deliver(conn, len(data))
    head = frames[i][:k]
    for j, fr in enumerate(frames[:i]):
        feed(fr + head if (join and j == i - 1) else fr)
    if head and not (join and i > 0):
        feed(head)
    for st in steps:
        try:
            w._run_step(st)
        except Exception as e:
            if type(e).__name__ != "StepSkipped":
                raise
    feed(frames[i][k:])
    for fr in frames[i + 1:]:
        feed(fr)
    log = obs_log(w, with_time=False, from_seq=mark, with_dispatch=False, with_timers=False)
    return log, pending_table(w), w


def c03_mid_case(rng, cfg, pre, S, ver):
    """Where the application acts in the middle of the broker stream, and what it does."""
    prof = cfg["profile"]
    vv = {"$": "v31"} if ver == 3 else {"$": "v311"}
    if rng.random() < 0.3:
        # a refused CONNACK leaves the protocol idle on an open transport; the application tries again
        pre2 = [st for st in pre if st["op"] == "app.build" or st.get("m") in ("setWindowSize",)]
        pre2.append({"op": "app.call", "addr": "A", "m": "connect", "a": ["seg"], "k": {"keepalive": 0, "version": vv}})
        if prof & 2 and rng.random() < 0.5:
            pre2.append({"op": "app.call", "addr": "A", "m": "publish", "k": {"topic": "e", "message": "early", "qos": rng.randint(0, 2)}})
        S2 = [{"type": "CONNACK", "rc": rng.choice([1, 2, 3, 4, 5, 0x17]), "session_present": False},
              {"type": "CONNACK", "rc": 0, "session_present": False}] + [p for p in S if p["type"] != "CONNACK"]
        steps = [{"op": "app.call", "addr": "A", "m": "connect", "a": ["seg2"],
                  "k": {"keepalive": 0, "version": vv, "cleanStart": rng.random() < 0.5}}]
        return pre2, S2, 1, steps
    if len(S) < 2:
        return None
    i = rng.randrange(1, len(S))
    acts = [{"op": "app.call", "addr": "A", "m": "setWindowSize", "a": [rng.choice([1, 2, 16])]},
            {"op": "app.call", "addr": "A", "m": "disconnect"}]
    if prof & 2:
        acts += [{"op": "app.call", "addr": "A", "m": "publish", "k": {"topic": "m", "message": "mid", "qos": q}} for q in (0, 1, 2)]
    if prof & 1:
        acts += [{"op": "app.call", "addr": "A", "m": "subscribe", "a": ["m/#", rng.randint(0, 2)]},
                 {"op": "app.call", "addr": "A", "m": "unsubscribe", "a": ["m/x"]},
                 {"op": "app.sethandler", "addr": "A", "which": "onPublish", "on": rng.random() < 0.5}]
    return pre, S, i, [rng.choice(acts) for _ in range(rng.choice([1, 1, 2]))]


def _compositions(n):
    """all 2^(n-1) compositions of n bytes as cut-offset tuples"""
    for r in range(n):
        for c in itertools.combinations(range(1, n), r):
            yield c


def c03_chunk(args):
    base, start, count, tier = args
    from sim import boot
    ns = boot.boot()
    out = {"cases": 0, "variants": 0, "viol": [], "kinds": {}, "exhaustive_streams": 0, "bytes": 0, "samples": [],
           "digests": set(), "aborted_cases": 0}
    for i in range(start, start + count):
        seed = base + i
        rng = random.Random(seed)
        size = ("short", "medium", "long", "medium")[i % 4]
        cfg, pre, S, ver = c03_case(rng, size)
        frames = [rc.encode(p, ver) for p in S]
        total = sum(len(f) for f in frames)
        bounds = list(itertools.accumulate(len(f) for f in frames))[:-1]
        ref, reft, w0 = _c03_run(ns, cfg, pre, frames, bounds)
        if ref is None:
            continue
        if any(e[0] == "X" for e in ref):
            out["aborted_cases"] += 1
        out["cases"] += 1
        out["bytes"] += total
        variants = []
        if total <= 12:
            variants += [("all-compositions", c) for c in _compositions(total)]
            out["exhaustive_streams"] += 1
        else:
            variants.append(("whole", ()))
            variants.append(("byte-at-a-time", tuple(range(1, total))))
            if total <= (400 if tier == "quick" else 4000):
                variants += [("single-cut", (c,)) for c in range(1, total)]
            else:
                pts = set()
                for b in [0] + bounds:
                    for d in range(0, 6):
                        if 0 < b + d < total:
                            pts.add(b + d)
                        if 0 < b - d < total:
                            pts.add(b - d)
                for _ in range(60):
                    pts.add(rng.randrange(1, total))
                variants += [("single-cut", (c,)) for c in sorted(pts)]
            # cuts inside fixed header / remaining length of each frame, 2 and 3 cuts
            hdr = []
            for b in [0] + bounds:
                hdr += [b + 1, b + 2, b + 3]
            hdr = [h for h in hdr if 0 < h < total]
            for _ in range(20 if tier == "quick" else 80):
                k = rng.choice([2, 3])
                pool = hdr if rng.random() < 0.6 else list(range(1, total))
                if len(pool) >= k:
                    variants.append(("%d-cut" % k, tuple(sorted(rng.sample(pool, k)))))
            for _ in range(15 if tier == "quick" else 60):
                k = rng.randint(1, min(total - 1, 12))
                variants.append(("random", tuple(sorted(rng.sample(range(1, total), k)))))
        for kind, cuts in variants:
            log, tt, _ = _c03_run(ns, cfg, pre, frames, cuts)
            out["variants"] += 1
            out["kinds"][kind] = out["kinds"].get(kind, 0) + 1
            out["digests"].add(hash((seed, cuts)))
            d = first_diff(ref, log)
            if d is None and tt != reft:
                d = ("timers", reft[:4], tt[:4])
            if d is not None:
                out["viol"].append({"sig": "C03.G1:%s:%s" % (kind, _dkind(d)), "seed": seed, "kind": "c03",
                                    "msg": "composition %s (%s) of %d packets/%d bytes behaves differently from one-packet-per-chunk: %r"
                                           % (list(cuts)[:12], kind, len(frames), total, d),
                                    "nsteps": len(cuts),
                                    "replay": {"kind": "c03", "property": "C03", "signature": "C03.G1", "config": cfg, "prefix": pre,
                                               "frames": [f.hex() for f in frames], "cuts": list(cuts), "mode": "burst", "seed": seed}})
                break
        # timed mode (G2): last byte of packet i arrives when packet i arrived in the reference
        for rep in range(2 if tier == "quick" else 6):
            tnow = 0.0
            times = []
            for f in frames:
                tnow += rng.choice([0.0, 0.25, 1.0, 3.0, 4.5, 9.0, 30.0])
                times.append(tnow)
            w = World(ns, cfg)
            reft_pieces = [[] for _ in frames]
            refl, reftab, _ = _c03_run(ns, cfg, pre, frames, reft_pieces, times)
            pieces = []
            prev = 0.0
            for f, ta in zip(frames, times):
                ps = []
                k = rng.randint(0, min(3, len(f) - 1))
                offs = sorted(rng.sample(range(1, len(f)), k)) if k else []
                for o in offs:
                    ps.append((o, prev + (ta - prev) * rng.choice([0.0, 0.3, 0.5, 0.9, 1.0])))
                ps.sort(key=lambda x: (x[1], x[0]))
                # offsets must increase with time
                ps = [(o, tt) for o, tt in zip(sorted(o for o, _ in ps), sorted(tt for _, tt in ps))]
                pieces.append(ps)
                prev = ta
            log, tab, _ = _c03_run(ns, cfg, pre, frames, pieces, times)
            out["variants"] += 1
            out["kinds"]["timed"] = out["kinds"].get("timed", 0) + 1
            d = first_diff(refl, log)
            if d is None and tab != reftab:
                d = ("timers", reftab[:4], tab[:4])
            if d is not None:
                out["viol"].append({"sig": "C03.G2:timed:%s" % _dkind(d), "seed": seed, "kind": "c03",
                                    "msg": "timed segmentation of %d packets behaves differently: %r" % (len(frames), d),
                                    "nsteps": sum(len(p) for p in pieces),
                                    "replay": {"kind": "c03", "property": "C03", "signature": "C03.G2", "config": cfg, "prefix": pre,
                                               "frames": [f.hex() for f in frames], "cuts": pieces, "times": times, "mode": "timed",
                                               "seed": seed}})
                break
        # G3: the application acts while a packet is half received - the same as acting right
        # before that packet arrives whole
        mc = c03_mid_case(rng, cfg, pre, S, ver)
        if mc is not None and not out["viol"]:
            pre3, S3, mi, msteps = mc
            frames3 = [rc.encode(p, ver) for p in S3]
            ref3, reft3, _w = _c03_run_mid(ns, cfg, pre3, frames3, mi, 0, msteps, False)
            if ref3 is not None:
                ln = len(frames3[mi])
                ks = sorted(set([1, 2, 3, ln - 1] + [rng.randrange(1, ln) for _ in range(3)]))
                for k in [x for x in ks if 0 < x < ln]:
                    for join in (False, True):
                        log, tt, _w = _c03_run_mid(ns, cfg, pre3, frames3, mi, k, msteps, join)
                        out["variants"] += 1
                        out["kinds"]["straddle"] = out["kinds"].get("straddle", 0) + 1
                        d = first_diff(ref3, log)
                        if d is None and tt != reft3:
                            d = ("timers", reft3[:4], tt[:4])
                        if d is not None:
                            out["viol"].append({"sig": "C03.G3:straddle:%s" % _dkind(d), "seed": seed, "kind": "c03",
                                                "msg": "the application acts (%s) after the first %d bytes of packet %d (%s) instead of right before it: behaves differently: %r"
                                                       % (",".join(st.get("m", st["op"]) for st in msteps), k, mi, S3[mi]["type"], d),
                                                "nsteps": 1,
                                                "replay": {"kind": "c03", "property": "C03", "signature": "C03.G3", "config": cfg,
                                                           "prefix": pre3, "frames": [f.hex() for f in frames3], "mode": "mid",
                                                           "i": mi, "k": k, "join": join, "steps": msteps, "seed": seed}})
                            break
                    if out["viol"]:
                        break
        if len(out["samples"]) < 1 and total < 60:
            out["samples"].append({"seed": seed, "prefix": pre, "stream": [f.hex() for f in frames],
                                   "variants": len(variants)})
    out["digests"] = len(out["digests"])
    for v in out["viol"]:
        v["chunk"] = ["c03", base, start, count, tier, v["seed"] - base]
    return out


def _dkind(d):
    try:
        a = d[1]
        return a[0] if isinstance(a, tuple) else str(a)
    except Exception:
        return "?"


def c03_replay(ns, rp):
    frames = [bytes.fromhex(x) for x in rp["frames"]]
    bounds = list(itertools.accumulate(len(f) for f in frames))[:-1]
    if rp["mode"] == "mid":
        ref, reft, _ = _c03_run_mid(ns, rp["config"], rp["prefix"], frames, rp["i"], 0, rp["steps"], False)
        log, tt, _ = _c03_run_mid(ns, rp["config"], rp["prefix"], frames, rp["i"], rp["k"], rp["steps"], rp["join"])
    elif rp["mode"] == "burst":
        ref, reft, _ = _c03_run(ns, rp["config"], rp["prefix"], frames, bounds)
        log, tt, _ = _c03_run(ns, rp["config"], rp["prefix"], frames, tuple(rp["cuts"]))
    else:
        ref, reft, _ = _c03_run(ns, rp["config"], rp["prefix"], frames, [[] for _ in frames], rp["times"])
        log, tt, _ = _c03_run(ns, rp["config"], rp["prefix"], frames, [[tuple(x) for x in p] for p in rp["cuts"]], rp["times"])
    d = first_diff(ref, log)
    if d is None and tt != reft:
        d = ("timers", reft[:4], tt[:4])
    if d is not None:
        return False, "differs from the one-packet-per-chunk run at %r" % (d,)
    return True, ""


# =========================================================================== C19

def _solo_history(ns, seed, addr, fam, length):
    """Generate a history for one address with the online generator, recorded as
    (time, step) with every timer firing made explicit."""
    rng = random.Random(seed)
    cfg = G.make_config(rng, fam)
    cfg["two_addr"] = False
    cfg["faults"]["stall"] = False
    cfg["faults"]["raw"] = False
    cfg["faults"]["foreign_ack"] = False
    cfg["length"] = length
    g = G.Gen(rng, cfg)
    g.addrs = [addr]
    w = World(ns, cfg)
    L = Ledger(w, [], ["none"])
    w.observer = L.observe
    hist = []
    for i in range(length):
        st = g.next(w, L)
        if st["op"] == "net.stall" or st["op"] == "sim.set_id":
            continue
        if st["op"] == "time.advance":
            target = w.now + st["dt"]
            n = 0
            while n < 50:
                order = w.reactor.due_order()
                if not order or order[0].getTime() > target + 1e-6:
                    break
                hist.append((order[0].getTime(), {"op": "time.fire1", "addr": addr}))
                w._fire(order[0])
                n += 1
            if n < 50:
                w.reactor.rightNow = max(w.reactor.rightNow, target)
                hist.append((w.now, {"op": "time.set", "addr": addr}))
            continue
        if st["op"] == "time.fire":
            order = w.reactor.due_order()
            if not order:
                continue
            if order[0].getTime() > 1e8:
                continue
            hist.append((max(w.now, order[0].getTime()), {"op": "time.fire1", "addr": addr}))
            w._fire(order[0])
            continue
        hist.append((w.now, st))
        w.run_step(st)
    return cfg, hist


def _run_timed(ns, cfg, hist, props=None, on_step=None):
    """Execute [(t, step)] on one world/factory.  time.fire1 fires the earliest
    timer owned by a connection of step['addr']."""
    w = World(ns, cfg)
    L = None
    if props:
        L = Ledger(w, runner.all_rules(), props)
        w.observer = L.observe
    for i_step, (t, st) in enumerate(hist):
        if on_step is not None and i_step:
            on_step(i_step - 1, w)
        if t > w.reactor.rightNow:
            w.reactor.rightNow = t
        op = st["op"]
        if op == "time.set":
            continue
        if op == "sim.set_id_near":
            # the shared counter as it stands a full cycle later: right before an identifier
            # that is still in use at some address (held back in a queue, or in a window)
            if L is None:
                continue
            pend = []
            for a_ in sorted(L.sess):
                for r in L.sess[a_].reqs:
                    if r.pending and isinstance(r.msgId, int) and (st.get("addr") in (None, a_)):
                        pend.append((0 if (st.get("held") and not r.tx) else 1, a_, r.rid, r.msgId))
            if not pend:
                w.note("no identifier in use to place the counter at")
                continue
            pend.sort()
            if st.get("held"):
                best = [x for x in pend if x[0] == pend[0][0]]
            else:
                best = pend
            tgt = best[st.get("pick", 0) % len(best)][3]
            w.run_step({"op": "sim.set_id", "value": (tgt - 1 - st.get("off", 1)) % 65535 + 1})
            w.count("id_placed_at_in_use" + ("_held_back" if best[0][0] == 0 and st.get("held") else ""))
            continue
        if op == "time.fire1":
            addr = st["addr"]
            own = [dc for dc in w.reactor.due_order()
                   if w.timer_owner.get(dc.sim_tid) is not None and w.conns[w.timer_owner[dc.sim_tid]].addr == addr]
            if not own:
                w.note("no timer to fire for %s" % addr)
                continue
            dc = own[0]
            # fire at the instant the history says (== its due time in the solo run); never a few
            # ulps early (the clocks of the two runs may differ by float noise below the 1e-9 tie
            # tolerance of the merge, and LoopingCall reschedules for the same instant when it is
            # called a hair before its due time)
            if 0 < dc.getTime() - w.reactor.rightNow < 1e-6:
                w.reactor.rightNow = dc.getTime()
            w.reactor.calls.remove(dc)
            dc.called = 1
            label = w.timer_label.get(dc.sim_tid)
            ci = w.timer_owner.get(dc.sim_tid)
            w.dispatch("timer", w.conns[ci], {"tid": dc.sim_tid, "label": label}, lambda dc=dc: dc.func(*dc.args, **dc.kw))
            continue
        w.run_step(st)
    if on_step is not None and hist:
        on_step(len(hist) - 1, w)
    return w, L


def _c19_cross(ns, cfg, cfgB, HA3, HB, merged3, cross, la=None):
    """V3: a callback of address A acts on address B (fail-over).  B must behave as if the
    application had made that call itself, at top level, at the same moment.
    Returns (diff or None, info)."""
    hit = {"i": None, "n": 0}

    def on_step(i, w):
        n = hit["n"]
        evs = w.events
        for e in evs[n:]:
            if e[0] == "A" and hit["i"] is None and w.conns[e[3]].addr == "B" and isinstance(e[4], dict) \
                    and e[4].get("m") == cross["m"] and e[4].get("k", {}) == cross.get("k", {}) and e[4].get("a", []) == cross.get("a", []):
                hit["i"] = i
        hit["n"] = len(evs)
    wj, _ = _run_timed(ns, cfg, merged3, None, on_step)
    if hit["i"] is None:
        return None, "not-fired"
    k = hit["i"]
    top = dict((kk, vv) for kk, vv in cross.items() if kk not in ("when", "chain"))
    HB3 = []
    for idx, (t, st) in enumerate(merged3):
        if st.get("addr") == "B" and st is not merged3[k][1]:
            if idx < k:
                HB3.append((t, st))
    HB3.append((merged3[k][0], top))
    for idx, (t, st) in enumerate(merged3):
        if idx > k and st.get("addr") == "B":
            HB3.append((t, st))
    wb3, _ = _run_timed(ns, cfgB, HB3)
    jb = obs_log(wj, "B", rename_ids=True, with_dispatch=False)
    sb = obs_log(wb3, "B", rename_ids=True, with_dispatch=False)
    d = first_diff(sb, jb)
    if d is None and la is not None:
        # address A itself must not notice that its callback acted elsewhere (or chained a Deferred)
        ja = obs_log(wj, "A", rename_ids=True)
        d2 = first_diff(la, ja)
        if d2 is not None:
            return ("A", d2), "fired"
    return (("B", d) if d is not None else None), "fired"


def c19_chunk(args):
    base, start, count, tier = args
    from sim import boot
    ns = boot.boot()
    out = {"cases": 0, "viol": [], "interleavings": 0, "steps": 0, "samples": [], "digests": set(), "probes": {}}
    fams = ["publisher", "subscriber", "general", "persistent", "clean", "window", "qos2", "subreq", "closing", "keepalive", "resume"]
    for i in range(start, start + count):
        seed = base + i
        rng = random.Random(seed)
        famA, famB = rng.choice(fams), rng.choice(fams)
        ln = rng.choice([8, 15, 25, 40])
        cfgA, HA = _solo_history(ns, seed * 2 + 1, "A", famA, ln)
        cfgB, HB = _solo_history(ns, seed * 2 + 2, "B", famB, ln)
        # one factory => one profile, one jitter policy, one id start for both
        cfg = dict(cfgA)
        cfg["two_addr"] = True
        cfg["start_id"] = rng.choice([None, None, 65530, 65533, 65535])
        cfgB2 = dict(cfgB)
        for k in ("profile", "jitter", "jseed", "start_id"):
            cfgB2[k] = cfg[k]
        if cfgB2["profile"] != cfgB["profile"]:
            # B's history was generated for another profile: regenerate it for the joint one
            rngB = random.Random(seed * 2 + 2)
            # (simple way: force the profile in the generator's config)
            cfgB, HB = _solo_history_forced(ns, seed * 2 + 2, "B", famB, ln, cfg["profile"])
            cfgB2 = dict(cfgB)
            for k in ("profile", "jitter", "jseed", "start_id"):
                cfgB2[k] = cfg[k]
        cfgA2 = dict(cfg)
        wa, _ = _run_timed(ns, cfgA2, HA)
        wb, _ = _run_timed(ns, cfgB2, HB)
        la = obs_log(wa, "A", rename_ids=True)
        lb = obs_log(wb, "B", rename_ids=True)
        out["cases"] += 1
        for rep in range(2 if tier == "quick" else 5):
            # merge by time; ties broken by a seeded coin
            ia = ib = 0
            merged = []
            while ia < len(HA) or ib < len(HB):
                if ib >= len(HB):
                    pick = "A"
                elif ia >= len(HA):
                    pick = "B"
                elif HA[ia][0] < HB[ib][0] - 1e-9:
                    pick = "A"
                elif HB[ib][0] < HA[ia][0] - 1e-9:
                    pick = "B"
                else:
                    pick = "A" if rng.random() < 0.5 else "B"
                if pick == "A":
                    merged.append(HA[ia])
                    ia += 1
                else:
                    merged.append(HB[ib])
                    ib += 1
            absolute = any(st_.get("op") == "brk.ack" and st_.get("mode") in ("again", "foreign") for (_t, st_) in merged)
            if rng.random() < 0.5 and not absolute:
                # (ids are renamed in the comparison, so the joint run may move the counter - unless
                # a step names an identifier by its number: a repeated acknowledgement of a finished
                # request legitimately acknowledges whoever holds that number now)
                for _ in range(rng.choice([1, 1, 2])):
                    k_ = rng.randrange(1, len(merged) + 1)
                    merged.insert(k_, (merged[k_ - 1][0], {"op": "sim.set_id_near", "addr": rng.choice([None, "A", "B", "B"]),
                                                           "held": rng.random() < 0.6, "pick": rng.randrange(8),
                                                           "off": rng.choice([1, 1, 2])}))
            wj, Lj = _run_timed(ns, cfg, merged, ["C17"])
            out["interleavings"] += 1
            out["steps"] += len(merged)
            out["digests"].add(wj.digest())
            ja = obs_log(wj, "A", rename_ids=True)
            jb = obs_log(wj, "B", rename_ids=True)
            bad = None
            placed = any(st_.get("op") == "sim.set_id_near" for (_t, st_) in merged)
            # with the counter moved, numbers are handed out again and the scripted broker (whose
            # relative references go through its table of numbers) may answer differently from the
            # solo run: such joint runs are judged by the identifier rules only (V2)
            for nm, solo, joint in (() if placed else (("A", la, ja), ("B", lb, jb))):
                d = first_diff(solo, joint)
                if d is not None:
                    bad = (nm, d)
                    break
            if bad is None and Lj.violations:
                v = Lj.violations[0]
                out["viol"].append({"sig": "C19.V2:%s" % v.sig, "seed": seed, "kind": "c19", "msg": v.msg, "nsteps": len(merged),
                                    "replay": {"kind": "c19", "property": "C19", "signature": "C19.V2", "config": cfg,
                                               "HA": HA, "HB": HB, "merged": merged, "seed": seed}})
                break
            if bad is not None:
                nm, d = bad
                out["viol"].append({"sig": "C19.V1:%s" % _dkind(d), "seed": seed, "kind": "c19",
                                    "msg": "address %s behaves differently when address %s is active on the same factory: entry %d solo=%r joint=%r"
                                           % (nm, "B" if nm == "A" else "A", d[0], d[1], d[2]),
                                    "nsteps": len(merged),
                                    "replay": {"kind": "c19", "property": "C19", "signature": "C19.V1", "config": cfg,
                                               "cfgB": cfgB2, "HA": HA, "HB": HB, "merged": merged, "seed": seed}})
                break
        # V3: a callback of A acts on B
        if not any(v["seed"] == seed for v in out["viol"]) and rng.random() < 0.6:
            cand = [ix for ix, (t_, st_) in enumerate(HA) if st_["op"] == "app.call" and not st_.get("then")
                    and st_.get("m") in ("publish", "subscribe", "unsubscribe", "connect")
                    and (st_["m"] != "publish" or st_.get("k", {}).get("qos"))]
            if cand:
                kx = rng.choice(cand)
                if cfg["profile"] & 2:
                    cross = {"op": "app.call", "addr": "B", "m": "publish",
                             "k": {"topic": "fo/x", "message": "fo", "qos": rng.randint(0, 2)}, "when": "any"}
                else:
                    cross = {"op": "app.call", "addr": "B", "m": "subscribe", "a": ["fo/#", rng.randint(0, 2)], "when": "any"}
                if rng.random() < 0.35:
                    cross["chain"] = True      # ... and returns that call's Deferred from its callback
                HA3 = list(HA)
                HA3[kx] = (HA[kx][0], dict(HA[kx][1], then=[cross]))
                ia = ib = 0
                merged3 = []
                while ia < len(HA3) or ib < len(HB):
                    if ib >= len(HB):
                        pick = "A"
                    elif ia >= len(HA3):
                        pick = "B"
                    elif HA3[ia][0] < HB[ib][0] - 1e-9:
                        pick = "A"
                    elif HB[ib][0] < HA3[ia][0] - 1e-9:
                        pick = "B"
                    else:
                        pick = "A" if rng.random() < 0.5 else "B"
                    if pick == "A":
                        merged3.append(HA3[ia])
                        ia += 1
                    else:
                        merged3.append(HB[ib])
                        ib += 1
                bad3, info3 = _c19_cross(ns, cfg, cfgB2, HA3, HB, merged3, cross, la)
                out["probes"]["cross_callback_" + info3] = out["probes"].get("cross_callback_" + info3, 0) + 1
                if info3 == "fired":
                    out["interleavings"] += 1
                if bad3 is not None:
                    nm, d = bad3
                    out["viol"].append({"sig": "C19.V3:%s" % _dkind(d), "seed": seed, "kind": "c19",
                                        "msg": ("address B behaves differently when the call is made from a callback of address A instead of at top level: entry %d top-level=%r from-callback=%r"
                                                % (d[0], d[1], d[2])) if nm == "B" else
                                               ("address A behaves differently when one of its callbacks acts on address B%s: entry %d alone=%r joint=%r"
                                                % (" and returns that call's Deferred" if cross.get("chain") else "", d[0], d[1], d[2])),
                                        "nsteps": len(merged3),
                                        "replay": {"kind": "c19", "mode": "cross", "property": "C19", "signature": "C19.V3", "config": cfg,
                                                   "cfgB": cfgB2, "HA": HA3, "HB": HB, "merged": merged3, "cross": cross, "seed": seed}})
        for w_ in (wa, wb):
            if any(c.lost for c in w_.conns):
                out["probes"]["solo_with_loss"] = out["probes"].get("solo_with_loss", 0) + 1
        if len(out["samples"]) < 1 and len(HA) + len(HB) < 40:
            out["samples"].append({"seed": seed, "A": [s for _, s in HA][:20], "B": [s for _, s in HB][:20]})
    out["digests"] = len(out["digests"])
    for v in out["viol"]:
        v["chunk"] = ["c19", base, start, count, tier, v["seed"] - base]
    return out


def _solo_history_forced(ns, seed, addr, fam, length, profile):
    rng = random.Random(seed)
    cfg = G.make_config(rng, fam)
    cfg["profile"] = profile
    cfg["two_addr"] = False
    cfg["faults"]["stall"] = False
    cfg["faults"]["raw"] = False
    cfg["faults"]["foreign_ack"] = False
    cfg["length"] = length
    g = G.Gen(rng, cfg)
    g.addrs = [addr]
    w = World(ns, cfg)
    L = Ledger(w, [], ["none"])
    w.observer = L.observe
    hist = []
    for i in range(length):
        st = g.next(w, L)
        if st["op"] in ("net.stall", "sim.set_id"):
            continue
        if st["op"] in ("time.advance", "time.fire"):
            order = w.reactor.due_order()
            if st["op"] == "time.fire":
                if not order or order[0].getTime() > 1e8:
                    continue
                hist.append((max(w.now, order[0].getTime()), {"op": "time.fire1", "addr": addr}))
                w._fire(order[0])
            else:
                target = w.now + st["dt"]
                n = 0
                while n < 50:
                    order = w.reactor.due_order()
                    if not order or order[0].getTime() > target + 1e-6:
                        break
                    hist.append((order[0].getTime(), {"op": "time.fire1", "addr": addr}))
                    w._fire(order[0])
                    n += 1
                if n < 50:
                    w.reactor.rightNow = max(w.reactor.rightNow, target)
                    hist.append((w.now, {"op": "time.set", "addr": addr}))
            continue
        hist.append((w.now, st))
        w.run_step(st)
    return cfg, hist


def c19_replay(ns, rp):
    HA = [(t, s) for t, s in rp["HA"]]
    HB = [(t, s) for t, s in rp["HB"]]
    merged = [(t, s) for t, s in rp["merged"]]
    cfg = rp["config"]
    if rp.get("mode") == "cross":
        HA0 = [(t, (dict((k_, v_) for k_, v_ in s_.items() if k_ != "then") if s_.get("then") == [rp["cross"]] else s_)) for t, s_ in HA]
        wa0, _ = _run_timed(ns, cfg, HA0)
        bad3, info3 = _c19_cross(ns, cfg, rp.get("cfgB", cfg), HA, HB, merged, rp["cross"], obs_log(wa0, "A", rename_ids=True))
        if bad3 is not None:
            return False, "address %s differs at entry %d: expected=%r joint=%r" % ((bad3[0],) + tuple(bad3[1]))
        return True, ""
    wa, _ = _run_timed(ns, cfg, HA)
    wb, _ = _run_timed(ns, rp.get("cfgB", cfg), HB)
    wj, Lj = _run_timed(ns, cfg, merged, ["C17"])
    placed = any(s_.get("op") == "sim.set_id_near" for (_t, s_) in merged)
    for nm, solo, joint in (() if placed else (("A", obs_log(wa, "A", True), obs_log(wj, "A", True)),
                                               ("B", obs_log(wb, "B", True), obs_log(wj, "B", True)))):
        d = first_diff(solo, joint)
        if d is not None:
            return False, "address %s differs at entry %d: solo=%r joint=%r" % (nm, d[0], d[1], d[2])
    if Lj.violations:
        return False, "identifier collision in the joint run: %s" % Lj.violations[0].msg
    return True, ""


# ====================================================================== C20 B3

def metamorphic_c20(ns, seed, tier):
    n = 400 if tier == "quick" else 6000
    base = (seed << 32) + (1 << 28)
    out = {"viol": [], "coverage": {"metamorphic_cases": 0, "rejected_calls_deleted": 0}}
    for i in range(n):
        s = base + i
        # no step with an absolute client identifier: a rejected call may legitimately
        # burn an identifier, and identifiers are compared after renaming
        r = runner.run_seed(ns, s, "args", ["C20"], stop_early=False,
                            override={"faults": {"foreign_ack": False, "raw": False}, "start_id": None})
        w1 = r.world
        bad_rids = set(rid for rid, q in w1.reqs.items() if q.get("tag") == "bad")
        if not bad_rids:
            continue
        # only calls that really were rejected count (a bad call in a state that
        # forbids it anyway is refused for another reason - still without effect)
        steps2 = [st for st in r.steps if st.get("tag") != "bad"]
        r2 = runner.run_steps(ns, r.cfg, steps2, ["C20"])
        out["coverage"]["metamorphic_cases"] += 1
        out["coverage"]["rejected_calls_deleted"] += len(bad_rids)
        l1 = obs_log(w1, rename_ids=True, skip_rids=bad_rids, with_dispatch=False)
        l2 = obs_log(r2.world, rename_ids=True, with_dispatch=False)
        d = first_diff(l1, l2)
        if d is not None:
            out["viol"].append({"sig": "C20.B3:%s" % _dkind(d), "seed": s, "kind": "c20b3", "nsteps": len(r.steps),
                                "msg": "deleting the rejected calls changes the behaviour at entry %d: with=%r without=%r" % d,
                                "replay": {"kind": "c20b3", "property": "C20", "signature": "C20.B3", "config": r.cfg,
                                           "steps": r.steps, "seed": s}})
            if len(out["viol"]) >= 3:
                break
    return out


def c20_replay(ns, rp):
    r1 = runner.run_steps(ns, rp["config"], rp["steps"], ["C20"])
    bad_rids = set(rid for rid, q in r1.world.reqs.items() if q.get("tag") == "bad")
    r2 = runner.run_steps(ns, rp["config"], [st for st in rp["steps"] if st.get("tag") != "bad"], ["C20"])
    d = first_diff(obs_log(r1.world, rename_ids=True, skip_rids=bad_rids, with_dispatch=False),
                   obs_log(r2.world, rename_ids=True, with_dispatch=False))
    if d is not None:
        return False, "deleting the rejected calls changes the behaviour at entry %d: with=%r without=%r" % d
    return True, ""


# ================================================================ C17 long wrap

def long_wrap(ns, seed):
    """> 65535 identifier allocations with requests of every kind unfinished."""
    from sim.rules_wire import WireRules
    rng = random.Random(seed)
    out = {"viol": [], "coverage": {}}
    for prof, ver in ((3, 4),):
        cfg = {"profile": prof, "version": ver, "jitter": "zero", "family": "longwrap"}
        w = World(ns, cfg)
        L = Ledger(w, [WireRules()], ["C17"])
        w.observer = L.observe
        pre = [{"op": "app.build", "addr": "A"},
               {"op": "app.call", "addr": "A", "m": "setWindowSize", "a": [4]},
               {"op": "app.call", "addr": "A", "m": "connect", "a": ["wrap"], "k": {"cleanStart": False}},
               {"op": "brk.connack", "addr": "A", "rc": 0},
               {"op": "app.call", "addr": "A", "m": "subscribe", "a": ["keep/#", 1]},          # stays unacknowledged
               {"op": "app.call", "addr": "A", "m": "unsubscribe", "a": ["keep/x"]},           # stays unacknowledged
               {"op": "app.call", "addr": "A", "m": "publish", "k": {"topic": "k", "message": "q2", "qos": 2}},
               {"op": "brk.ack", "addr": "A", "kind": "PUBREC", "ref": 0},                    # PUBREL stays unanswered
               {"op": "app.call", "addr": "A", "m": "publish", "k": {"topic": "k", "message": "q1", "qos": 1}}]  # unanswered
        for st in pre:
            w.run_step(st)
        n = 0
        while n < 66000 and not L.violations:
            w.run_step({"op": "app.call", "addr": "A", "m": "publish", "k": {"topic": "t", "message": "m", "qos": 1}})
            # answer the newest PUBACK only (the old q1 keeps waiting): last entry of need
            need = w.broker.session("A").need["PUBACK"]
            w.run_step({"op": "brk.ack", "addr": "A", "kind": "PUBACK", "ref": len(need) - 1})
            n += 1
            if n % 2000 == 0:
                # keep memory bounded: the event log is not needed any more
                del w.events[:L.pos]
                L.pos = 0
        out["coverage"]["allocations"] = n
        out["coverage"]["kept_unfinished"] = sum(1 for r in L.reqs.values() if r.pending)
        for v in L.violations:
            out["viol"].append({"sig": "C17.LW:" + v.sig, "seed": seed, "kind": "c17lw", "nsteps": n, "msg": v.msg,
                                "replay": {"kind": "c17lw", "property": "C17", "signature": v.sig, "seed": seed}})
    return out


# ================================================================== entry points

def replay(ns, rp):
    k = rp["kind"]
    if k == "c03":
        ok, msg = c03_replay(ns, rp)
    elif k == "c19":
        ok, msg = c19_replay(ns, rp)
    elif k == "c20b3":
        ok, msg = c20_replay(ns, rp)
    elif k == "c17lw":
        r = long_wrap(ns, rp.get("seed", 0))
        ok, msg = (not r["viol"]), (r["viol"][0]["msg"] if r["viol"] else "")
    elif k == "chunk":
        # the whole case (or the whole batch slice) in which the violation occurred, in the order it
        # was run: for violations that depend on what earlier runs of the same process left behind
        fn = c03_chunk if rp["fn"] == "c03" else c19_chunk
        r = fn((rp["base"], rp["start"], rp["count"], rp["tier"]))
        want = rp.get("signature", "").split(":")[0]
        hit = [v for v in r["viol"] if v["sig"].startswith(want)]
        ok, msg = (not hit), (hit[0]["msg"] if hit else "")
    elif k in ("c02rl", "deepq"):
        from sim import extremes
        r = extremes.rl_limit(ns, rp.get("tier", "quick"), rp.get("seed", 0)) if k == "c02rl" \
            else extremes.deep_queue(ns, rp.get("seed", 0), rp["property"])
        hit = [v for v in r["viol"] if v["replay"]["signature"] == rp.get("signature")] or r["viol"]
        ok, msg = (not hit), (hit[0]["msg"] if hit else "")
    else:
        raise ValueError(k)
    return ok, msg


def main(ns, prop, tier, seed, write_evidence, known):
    t0 = time.time()
    fn = c03_chunk if prop == "C03" else c19_chunk
    if prop == "C03":
        n, cap, chunk = (1400, 40, 25) if tier == "quick" else (40000, 420, 50)
    else:
        n, cap, chunk = (3000, 40, 50) if tier == "quick" else (80000, 420, 100)
    n = int(os.environ.get("VERIF_RUNS", "0")) or n
    cap = float(os.environ.get("VERIF_BUDGET_S", "0")) or cap
    base = seed << 32
    jobs = [(base, s, min(chunk, n - s), tier) for s in range(0, n, chunk)]
    workers = int(os.environ.get("VERIF_WORKERS", "0")) or min(16, os.cpu_count() or 4)
    tot = {"cases": 0, "variants": 0, "interleavings": 0, "viol": [], "kinds": {}, "samples": [], "digests": 0,
           "exhaustive_streams": 0, "bytes": 0, "steps": 0, "aborted_cases": 0}
    errors = []
    ctx = multiprocessing.get_context("fork")
    with ProcessPoolExecutor(max_workers=workers, mp_context=ctx) as ex:
        futs = []
        it = iter(jobs)
        pending = set()
        for _ in range(workers * 2):
            j = next(it, None)
            if j is not None:
                pending.add(ex.submit(fn, j))
        from concurrent.futures import wait, FIRST_COMPLETED
        while pending:
            done, pending = wait(pending, timeout=900, return_when=FIRST_COMPLETED)
            if not done:
                errors.append("worker timeout")
                break
            for f in done:
                try:
                    part = f.result()
                except Exception as e:
                    import traceback
                    errors.append("worker failed: %r" % (e,))
                    continue
                for k in ("cases", "variants", "interleavings", "digests", "exhaustive_streams", "bytes", "steps", "aborted_cases"):
                    tot[k] += part.get(k, 0)
                for k, v in part.get("kinds", {}).items():
                    tot["kinds"][k] = tot["kinds"].get(k, 0) + v
                for k, v in part.get("probes", {}).items():
                    tot.setdefault("probes", {})[k] = tot.setdefault("probes", {}).get(k, 0) + v
                tot["viol"].extend(part["viol"])
                if len(tot["samples"]) < 2:
                    tot["samples"].extend(part["samples"][:1])
                if time.time() - t0 < cap:
                    j = next(it, None)
                    if j is not None:
                        pending.add(ex.submit(fn, j))
    wall = time.time() - t0
    rcode = 0
    rdir = os.environ.get("VERIF_REPLAY_DIR") or os.path.join(VERIF, "replays")
    os.makedirs(rdir, exist_ok=True)
    seen = set()
    new = []
    for e in sorted(tot["viol"], key=lambda x: x["nsteps"]):
        if e["sig"] in seen:
            continue
        seen.add(e["sig"])
        kf = [k for k in known if k.get("status") == "known" and e["sig"].startswith(k["signature"])]
        if kf:
            print("KNOWN-FINDING: property=%s %s" % (prop, kf[0]["what"]))
            continue
        new.append(e)
    for e in new[:3]:
        path = os.path.join(rdir, "%s-%s-%d.json" % (prop, hashlib.sha1(e["sig"].encode()).hexdigest()[:10], e["seed"]))
        rp = dict(e["replay"])
        rp["message"] = e["msg"]
        rp["replay_cmd"] = "./check %s --replay %s" % (prop, path)
        with open(path, "w") as f:
            json.dump(rp, f, indent=1)
        ok, msg = replay(ns, json.load(open(path)))
        if ok and e.get("chunk"):
            # not a function of this case alone: replay the case with all its runs, then the batch
            # slice, each in a fresh interpreter
            import subprocess, sys
            fnname, cb, cs, cc, ct, ci = e["chunk"]
            for (st_, cn_) in ((ci, 1), (cs, cc)):
                with open(path, "w") as f:
                    json.dump({"kind": "chunk", "property": prop, "fn": fnname, "base": cb, "start": st_, "count": cn_, "tier": ct,
                               "signature": e["sig"], "message": e["msg"],
                               "note": "reproduces only together with the runs that precede it in the same process",
                               "replay_cmd": "./check %s --replay %s" % (prop, path)}, f, indent=1)
                pr = subprocess.run([sys.executable, os.path.join(VERIF, "check"), prop, "--replay", path],
                                    capture_output=True, text=True, timeout=900)
                if pr.returncode == 1:
                    ok = False
                    break
        if ok:
            errors.append("violation %s did not reproduce from its replay file" % e["sig"])
            continue
        print("VIOLATION property=%s replay=%s" % (prop, path))
        print("  %s: %s" % (e["sig"], e["msg"][:600]))
        rcode = 1
    evals = tot["variants"] if prop == "C03" else tot["interleavings"]
    cov = {
        "evaluations": evals,
        "distinct_nontrivial": tot["digests"],
        "rule": ("C03: case = seeded prefix history + seeded stream of well-formed broker packets; evaluation = one chunk composition of "
                 "that stream compared with the one-packet-per-chunk run; distinct = distinct (case, composition) pairs; all compositions "
                 "enumerated for streams <= 12 bytes" if prop == "C03" else
                 "C19: case = two seeded single-address histories; evaluation = one seeded time-ordered interleaving on one factory whose "
                 "per-address observation logs are compared with the solo runs (V1), with the shared identifier counter moved onto an identifier in use and the identifier rules judging (V2), or with a callback of address A acting on address B, compared with the same call made at top level (V3); distinct = distinct event-log digests of joint runs"),
        "samples": tot["samples"][:2] or [{"note": "no short sample"}],
        "cases": tot["cases"],
        "composition_kinds": tot["kinds"],
        "streams_enumerated_exhaustively": tot["exhaustive_streams"],
        "stream_bytes": tot["bytes"],
        "cases_with_close_call": tot["aborted_cases"],
        "probes": tot.get("probes", {}),
        "joint_steps": tot["steps"],
        "runs_per_hour": int(evals / max(wall, 1e-9) * 3600),
        "new_violation_signatures": sorted(x["sig"] for x in new),
        "harness_errors": len(errors),
        "real_components": ["src/mqtt/**", "twisted Deferred/Protocol/DelayedCall/LoopingCall"],
        "stubbed_components": ["reactor (time only)", "TCP transport", "broker", "application", "jitter source"],
    }
    write_evidence(prop, tier, seed, "fault_enumeration" if prop == "C03" else "exploration", cov,
                   ["TCP preserves order and content; only chunk boundaries vary (C03)",
                    "jitter is a function of (address, draw index) so solo and joint runs draw the same values (C19)",
                    "a clean batch is evidence, not proof"], wall, len(new))
    print("%s: %d cases, %d evaluations in %.1fs; %d new violation signature(s)" % (prop, tot["cases"], evals, wall, len(new)))
    for er in errors[:5]:
        print("HARNESS-ERROR %s" % er)
    if errors:
        return 2 if rcode == 0 else rcode
    if evals == 0:
        print("HARNESS-ERROR nothing evaluated")
        return 2
    return rcode


# ============================================================ C16 enumeration

C16_ALPHABET = [0x00, 0x01, 0x02, 0x03, 0x04, 0x10, 0x20, 0x30, 0x32, 0x34, 0x36, 0x40, 0x50, 0x62, 0x70, 0x7F, 0x80,
                0x90, 0xB0, 0xD0, 0xE0, 0xFF]


def c16_enum_chunk(args):
    """Every byte string up to `maxlen` over C16_ALPHABET, injected in a fixed
    set of protocol states with requests pending (systematic part of C16)."""
    maxlen, lo, hi, tier = args
    from sim import boot
    ns = boot.boot()
    out = {"strings": 0, "runs": 0, "viol": {}, "states": 0}
    strings = []
    for n in range(1, maxlen + 1):
        for tup in itertools.product(C16_ALPHABET, repeat=n):
            strings.append(bytes(tup))
    strings = strings[lo:hi]
    # the states: (profile, prefix steps)
    def prefix(profile, stage):
        pre = [{"op": "app.build", "addr": "A"},
               {"op": "app.call", "addr": "A", "m": "setWindowSize", "a": [4]},
               {"op": "app.call", "addr": "A", "m": "connect", "a": ["enum"], "k": {"keepalive": 0, "cleanStart": True}}]
        if stage == "connecting":
            if profile & 2:
                pre.append({"op": "app.call", "addr": "A", "m": "publish", "k": {"topic": "t", "message": "m", "qos": 1}})
            return pre
        pre.append({"op": "brk.connack", "addr": "A", "rc": 0})
        if profile & 2:
            pre.append({"op": "app.call", "addr": "A", "m": "publish", "k": {"topic": "t", "message": "m", "qos": 1}})
            pre.append({"op": "app.call", "addr": "A", "m": "publish", "k": {"topic": "t", "message": "m", "qos": 2}})
            pre.append({"op": "app.call", "addr": "A", "m": "publish", "k": {"topic": "t", "message": "n", "qos": 2}})
            pre.append({"op": "brk.ack", "addr": "A", "kind": "PUBREC", "ref": 1})
        if profile & 1:
            pre.append({"op": "app.call", "addr": "A", "m": "subscribe", "a": ["s/#", 1]})
            pre.append({"op": "app.call", "addr": "A", "m": "unsubscribe", "a": ["u"]})
            pre.append({"op": "brk.publish", "addr": "A", "qos": 2, "id": 0x0101, "topic": "in", "payload": "p"})
        return pre
    states = [(p, st) for p in (1, 2, 3) for st in ("connecting", "connected")]
    out["states"] = len(states)
    for (prof, stage) in states:
        cfg = {"profile": prof, "version": 4, "jitter": "zero", "family": "c16enum"}
        pre = prefix(prof, stage)
        for sb in strings:
            steps = pre + [{"op": "brk.raw", "addr": "A", "hex": sb.hex()}, {"op": "drain"}, {"op": "silence"}]
            r = runner.run_steps(ns, cfg, steps, ["C16"])
            out["runs"] += 1
            for v in r.violations:
                if v.sig not in out["viol"]:
                    out["viol"][v.sig] = {"sig": v.sig, "seed": 0, "family": "c16enum:%d:%s" % (prof, stage), "msg": v.msg,
                                          "nsteps": len(steps), "cfg": cfg, "steps": steps, "count": 1}
                else:
                    out["viol"][v.sig]["count"] += 1
    out["strings"] = len(strings)
    return out


def c16_enumeration(ns, tier):
    maxlen = 2 if tier == "quick" else 3
    total = sum(len(C16_ALPHABET) ** n for n in range(1, maxlen + 1))
    workers = int(os.environ.get("VERIF_WORKERS", "0")) or min(16, os.cpu_count() or 4)
    per = (total + workers * 2 - 1) // (workers * 2)
    jobs = [(maxlen, lo, min(total, lo + per), tier) for lo in range(0, total, per)]
    ctx = multiprocessing.get_context("fork")
    res = {"viol": [], "coverage": {"enumerated_strings": total, "alphabet": [hex(x) for x in C16_ALPHABET], "max_length": maxlen,
                                    "runs": 0, "states": 0, "exhaustive_over_alphabet": True}}
    agg = {}
    with ProcessPoolExecutor(max_workers=workers, mp_context=ctx) as ex:
        for part in ex.map(c16_enum_chunk, jobs):
            res["coverage"]["runs"] += part["runs"]
            res["coverage"]["states"] = part["states"]
            for sig, e in part["viol"].items():
                if sig not in agg:
                    agg[sig] = e
                else:
                    agg[sig]["count"] += e["count"]
    res["viol"] = list(agg.values())
    return res
