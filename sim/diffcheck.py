"""Differential / metamorphic checks (C03, C19, C20.B3, C17 long wrap) - filled in later."""


def metamorphic_c20(ns, seed, tier):
    return None


def long_wrap(ns, seed):
    return None


def main(ns, prop, tier, seed, write_evidence, known):
    print("not implemented yet")
    return 2


def replay(ns, rp):
    return True, ""
