"""The simulator: discrete-event reactor, TCP transport stub, scripted broker,
application driver, and the World that executes JSON steps against the real
twisted-mqtt client and records everything observable as an event log.

Event log entries are tuples whose first element is the event kind:

  ("D",  seq, t, kind, addr, ci, info)       dispatch begins (kind: api data timer lost make)
  ("W",  seq, t, ci, bytes, phase)           transport.write
  ("X",  seq, t, ci, what)                   transport call: "lose" | "abort"
  ("TN", seq, t, tid, due, label, ci)        timer created
  ("TC", seq, t, tid)                        timer cancelled
  ("F",  seq, t, rid, ok, value)             Deferred of request rid fired
  ("CB", seq, t, ci, name, args)             application callback invoked
  ("R",  seq, t, rid, how, exc)              API call returned: "deferred" "none" "raised"
  ("E",  seq, t, where, exc_type, exc_str)   exception escaped from client code
  ("I",  seq, t, ci, frames)                 inbound frames completed by this data dispatch
  ("N",  seq, t, text)                       note (no-op step etc.) - not part of observations

seq is the global dispatch sequence number; t the virtual time.
"""
import hashlib
import json

from twisted.internet.base import DelayedCall
from twisted.internet.task import Clock, LoopingCall
from twisted.internet import error as tierror
from twisted.python import failure

from sim import refcodec as rc

EPS = 1e-6
HORIZON = 1.0e9


# --------------------------------------------------------------------- reactor

class SimReactor(Clock):
    """IReactorTime over virtual time.  One instance per process (installed as
    the global reactor); `world` is swapped per run."""

    def __init__(self):
        Clock.__init__(self)
        self.world = None
        self._tid = 0

    def reset(self, world):
        self.calls = []
        self.rightNow = 0.0
        self.world = world
        self._tid = 0

    def callLater(self, delay, f, *a, **kw):
        self._tid += 1
        dc = DelayedCall(self.rightNow + delay, f, a, kw, self._cancelled, self._resetted, self.seconds)
        dc.sim_tid = self._tid
        dc.sim_delay = delay
        self.calls.append(dc)
        if self.world is not None:
            self.world._timer_new(dc)
        return dc

    def _cancelled(self, dc):
        self.calls.remove(dc)
        if self.world is not None:
            self.world._timer_cancel(dc)

    def _resetted(self, dc):
        if self.world is not None:
            self.world._timer_reset(dc)

    # explicit firing, used by the World only
    def due_order(self):
        """Pending calls sorted by (due time, creation order)."""
        return sorted(self.calls, key=lambda c: (c.getTime(), c.sim_tid))

    def pop(self, dc):
        self.calls.remove(dc)
        if dc.getTime() > self.rightNow:
            self.rightNow = dc.getTime()
        dc.called = 1

    # things a real reactor has and code might touch
    def callFromThread(self, f, *a, **kw):  # pragma: no cover
        raise RuntimeError("threads are not simulated")

    def connectTCP(self, *a, **kw):  # pragma: no cover
        raise RuntimeError("real sockets are not simulated")

    def run(self, *a, **kw):  # pragma: no cover
        raise RuntimeError("simulated reactor is stepped by the World")

    running = True


def _mix(*parts):
    h = hashlib.blake2b(repr(parts).encode(), digest_size=8).digest()
    return int.from_bytes(h, "big")


class JitterSource(object):
    """Stands in for the `random` module inside mqtt.client.interval."""

    def __init__(self):
        self.world = None

    def random(self):
        if self.world is None:
            return 0.5
        return self.world._jitter()

    # anything else the module might call on `random`
    def __getattr__(self, name):
        raise AttributeError("simulated jitter source has no %r" % name)


# ------------------------------------------------------------------- transport

class SimTransport(object):
    """Models twisted.internet.tcp.Connection as seen by a protocol."""

    def __init__(self, world, conn):
        self.world = world
        self.conn = conn
        self.phase = "open"      # open | closing-lose | closing-abort | lost
        self.disconnecting = False
        self.connected = True

    def write(self, data):
        if not isinstance(data, (bytes, bytearray)):
            raise TypeError("Data must be bytes, not %r" % type(data))
        self.world._write(self.conn, bytes(data), self.phase)

    def writeSequence(self, seq):
        for d in seq:
            self.write(d)

    def loseConnection(self, *a, **kw):
        self.world._xcall(self.conn, "lose")
        if self.phase == "open":
            self.phase = "closing-lose"
            self.disconnecting = True
            self.conn.closing_seq = self.world.seq

    def abortConnection(self):
        self.world._xcall(self.conn, "abort")
        if self.phase in ("open", "closing-lose"):
            self.phase = "closing-abort"
            self.disconnecting = True
            if self.conn.closing_seq is None:
                self.conn.closing_seq = self.world.seq

    def getPeer(self):
        return self.conn.addr

    def getHost(self):
        return "sim-client"

    def setTcpNoDelay(self, *a):
        pass

    def setTcpKeepAlive(self, *a):
        pass


# ------------------------------------------------------------------------ conn

class Conn(object):
    """One protocol object + its transport + the broker's view of that TCP
    connection."""

    def __init__(self, idx, addr, profile):
        self.idx = idx
        self.addr = addr
        self.profile = profile
        self.protocol = None
        self.transport = None
        self.out = bytearray()          # everything written, all phases
        self.out_wire = bytearray()     # what reaches the broker (open / closing-lose)
        self.wire_pos = 0               # broker's parse offset in out_wire
        self.inb = bytearray()          # everything the broker sent
        self.in_delivered = 0
        self.in_framed = 0              # offset up to which delivered bytes were framed
        self.in_desync = False
        self.lost = False
        self.raw_injected = False
        self.lost_seq = None
        self.closing_seq = None
        self.connect_seq = None         # first connect() dispatch that wrote something
        self.version = rc.V311
        self.handlers = {}


# ---------------------------------------------------------------------- broker

class BrokerSession(object):
    """What the scripted broker remembers per address (survives connections
    unless a clean CONNECT is seen)."""

    def __init__(self):
        self.reset()

    def reset(self):
        # client -> broker exchanges, keyed by packet id, insertion ordered
        self.need = {"PUBACK": {}, "PUBREC": {}, "PUBCOMP": {}, "SUBACK": {}, "UNSUBACK": {}}
        self.answered = {"PUBACK": [], "PUBREC": [], "PUBCOMP": [], "SUBACK": [], "UNSUBACK": []}
        # broker -> client QoS2 exchanges
        self.tx_unrec = {}      # id -> publish dict (PUBLISH sent, no PUBREC seen)
        self.tx_recd = {}       # id -> True (PUBREC seen, PUBREL not sent yet)
        self.tx_rel = {}        # id -> True (PUBREL sent, no PUBCOMP seen)
        self.tx_done = []       # ids of completed exchanges (PUBCOMP seen), most recent last
        self.tx_q1 = {}         # id -> publish dict (QoS1 sent, no PUBACK seen)


class Broker(object):
    def __init__(self, world):
        self.world = world
        self.sessions = {}
        self.connects = {}      # conn idx -> list of parsed CONNECT
        self.pings = {}         # conn idx -> number of unanswered PINGREQ

    def session(self, addr):
        s = self.sessions.get(addr)
        if s is None:
            s = self.sessions[addr] = BrokerSession()
        return s

    def absorb(self, conn):
        """Parse what the client has put on the wire since last time."""
        frames, pos, err = rc.split_stream(conn.out_wire, conn.wire_pos)
        conn.wire_pos = pos
        sess = self.session(conn.addr)
        for raw in frames:
            try:
                p = rc.decode(raw, conn.version, strict=False)
            except rc.Malformed:
                continue
            t = p["type"]
            if t == "CONNECT":
                self.connects.setdefault(conn.idx, []).append(p)
                conn.version = rc.V31 if p.get("level") == 3 else rc.V311
                if p.get("clean"):
                    sess.reset()
                elif len(self.connects[conn.idx]) > 1:
                    # a second CONNECT on the same network connection (after a refusing CONNACK,
                    # I2): what the client sent earlier on this connection is still owed an answer
                    pass
                else:
                    # a new network connection: acknowledgements owed on the old one
                    # are forgotten; the client re-sends what it still wants answered
                    for k in sess.need:
                        sess.need[k] = {}
                        sess.answered[k] = []
                conn.broker_pending_connack = True
            elif t == "PUBLISH":
                if p["qos"] == 1:
                    sess.need["PUBACK"].setdefault(p["id"], True)
                elif p["qos"] == 2:
                    if p["id"] not in sess.need["PUBCOMP"]:
                        sess.need["PUBREC"].setdefault(p["id"], True)
            elif t == "PUBREL":
                sess.need["PUBREC"].pop(p["id"], None)
                sess.need["PUBCOMP"].setdefault(p["id"], True)
            elif t == "SUBSCRIBE":
                sess.need["SUBACK"].setdefault(p["id"], len(p["topics"]))
            elif t == "UNSUBSCRIBE":
                sess.need["UNSUBACK"].setdefault(p["id"], True)
            elif t == "PINGREQ":
                self.pings[conn.idx] = self.pings.get(conn.idx, 0) + 1
            elif t == "PUBACK":
                sess.tx_q1.pop(p["id"], None)
            elif t == "PUBREC":
                pub = sess.tx_unrec.pop(p["id"], None)
                if pub is not None:
                    sess.tx_recd[p["id"]] = pub
            elif t == "PUBCOMP":
                if sess.tx_rel.pop(p["id"], None) is not None:
                    sess.tx_done.append(p["id"])

    def ids_in_use(self, addr):
        s = self.session(addr)
        u = {}
        for k, d in s.need.items():
            for i in d:
                u[i] = k
        return u


# ----------------------------------------------------------------------- world

class StepSkipped(Exception):
    pass


class World(object):
    def __init__(self, ns, config):
        self.ns = ns
        self.cfg = config
        self.reactor = ns.reactor
        self.reactor.reset(self)
        ns.jitter.world = self
        self.deferred_objs = {}      # rid -> Deferred returned by the call (for callbacks that chain)
        self.seq = 0                 # dispatch counter
        self.cur = None              # current dispatch (seq, kind, conn)
        self.events = []
        self.conns = []
        self.by_addr = {}            # addr -> list of Conn
        self.factories = {}
        self.broker = Broker(self)
        self.rid = 0
        self.reqs = {}               # rid -> dict(info)
        self.jit_idx = {}
        self.stalled = False
        self.n_steps = 0
        self.n_noop = 0
        self.depth = 0
        self.fault_counts = {}
        self.timer_owner = {}        # tid -> conn idx (or None)
        self.timer_label = {}
        self.pending_then = []
        self.payload_refs = []          # bytearray objects handed to the API (the caller keeps them)
        prof = config.get("profile", 3)
        self.profile = prof
        self.factory = ns.factory.MQTTFactory(profile=prof)
        start_id = config.get("start_id")
        if start_id is not None:
            self.factory.id = start_id   # public attribute; C17's own quantifier
        # a second factory is never needed: one factory serves several addresses

    # ---------------------------------------------------------------- helpers

    @property
    def now(self):
        return self.reactor.rightNow

    def count(self, name, n=1):
        self.fault_counts[name] = self.fault_counts.get(name, 0) + n

    def ev(self, *e):
        self.events.append(e)

    def note(self, text):
        self.events.append(("N", self.seq, self.now, text))

    def _jitter(self):
        addr = self.cur[2].addr if (self.cur and self.cur[2] is not None) else "-"
        i = self.jit_idx.get(addr, 0)
        self.jit_idx[addr] = i + 1
        mode = self.cfg.get("jitter", "half")
        if mode == "zero":
            v = 0.0
        elif mode == "half":
            v = 0.5
        elif mode == "max":
            v = 1023.0 / 1024.0
        elif mode == "alt":
            v = (1023.0 / 1024.0) if (i % 2 == 0) else 0.0
        else:  # "rand"
            v = (_mix(self.cfg.get("jseed", 0), addr, i) % 1024) / 1024.0
        self.ev("J", self.seq, self.now, addr, v)
        return v

    def _unhandled(self, f):
        """A Failure that nothing handled (reported by Twisted's logger)."""
        kind = self.cur[1] if self.cur else "idle"
        try:
            name = type(f.value).__name__
            msg = str(f.value)[:200]
        except Exception:
            name, msg = "Failure", ""
        if name == "StepSkipped":
            return
        self.ev("E", self.seq, self.now, kind + ":unhandled", name, msg)

    def _timer_new(self, dc):
        conn = self.cur[2] if self.cur else None
        f = dc.func
        if isinstance(f, LoopingCall):
            label = "LoopingCall"
        elif getattr(f, "sim_app_cb", None):
            label = "notify"
        else:
            label = getattr(f, "__name__", type(f).__name__)
        ci = conn.idx if conn is not None else None
        self.timer_owner[dc.sim_tid] = ci
        self.timer_label[dc.sim_tid] = label
        self.ev("TN", self.seq, self.now, dc.sim_tid, dc.getTime(), label, ci)

    def _timer_cancel(self, dc):
        self.ev("TC", self.seq, self.now, dc.sim_tid)

    def _timer_reset(self, dc):
        self.ev("TR", self.seq, self.now, dc.sim_tid, dc.getTime())

    def _write(self, conn, data, phase):
        self.ev("W", self.seq, self.now, conn.idx, data, phase)
        conn.out.extend(data)
        if phase in ("open", "closing-lose"):
            conn.out_wire.extend(data)

    def _xcall(self, conn, what):
        self.ev("X", self.seq, self.now, conn.idx, what)

    # -------------------------------------------------------------- dispatch

    def dispatch(self, kind, conn, info, fn):
        """Run fn() as one entry into client code."""
        if self.cur is not None:
            # re-entrant API call from inside an application callback: stays in
            # the same dispatch, but timers / jitter belong to the connection called
            saved = self.cur
            self.cur = (saved[0], saved[1], conn if conn is not None else saved[2])
            try:
                return self._guard(fn, kind, nested=True)
            finally:
                self.cur = saved
        self.seq += 1
        self.cur = (self.seq, kind, conn)
        ci = conn.idx if conn is not None else None
        addr = conn.addr if conn is not None else None
        self.ev("D", self.seq, self.now, kind, addr, ci, info)
        try:
            return self._guard(fn, kind, nested=False)
        finally:
            self.cur = None
            for c in self.conns:
                if len(c.out_wire) > c.wire_pos:
                    self.broker.absorb(c)
            if self.observer is not None:
                self.observer(self)

    observer = None

    def _guard(self, fn, where, nested):
        try:
            return fn()
        except Exception as e:   # escaped from client code
            self.ev("E", self.seq, self.now, where, type(e).__name__, str(e)[:200])
            self.last_exc = e
            return _ESCAPED

    # ---------------------------------------------------------- app plumbing

    def decode_arg(self, v):
        if isinstance(v, dict) and "$" in v:
            k = v["$"]
            if k == "ba":
                ba = bytearray(v["v"].encode("utf-8"))
                self.payload_refs.append(ba)
                return ba
            if k == "bahex":
                return bytearray(bytes.fromhex(v["v"]))
            if k == "rep":
                return v["s"] * v["n"]
            if k == "barep":
                ba = bytearray(v["s"].encode("utf-8") * v["n"])
                if v["n"] < 100000:
                    self.payload_refs.append(ba)
                return ba
            if k == "obj":
                return object()
            if k == "tuple":
                return tuple(self.decode_arg(x) for x in v["v"])
            if k == "bytes":
                return bytes.fromhex(v["v"])
            if k == "v31":
                return self.ns.mqtt.v31
            if k == "v311":
                return self.ns.mqtt.v311
            if k == "ver":
                return {"level": v["level"], "tag": v["tag"]}
            if k == "none":
                return None
            if k == "topics":
                # a long list of (topic filter, QoS) pairs
                return [("%s%d" % (v.get("p", "t/"), i), v["q"][i % len(v["q"])]) for i in range(v["n"])]
            if k == "names":
                return ["%s%d" % (v.get("p", "t/"), i) for i in range(v["n"])]
            raise ValueError("bad arg spec %r" % (v,))
        if isinstance(v, list):
            return [self.decode_arg(x) for x in v]
        return v

    def handle(self, addr, h):
        lst = self.by_addr.get(addr, [])
        if not lst:
            raise StepSkipped("no protocol for %s" % addr)
        if h in (None, "cur"):
            return lst[-1]
        if h == "old":
            if len(lst) < 2:
                raise StepSkipped("no stale handle")
            return lst[-2]
        if isinstance(h, int):
            if 0 <= h < len(lst):
                return lst[h]
        raise StepSkipped("bad handle")

    def live(self, addr):
        lst = self.by_addr.get(addr, [])
        if lst and not lst[-1].lost:
            return lst[-1]
        return None

    def _track_deferred(self, rid, d, then):
        world = self

        def fire(ok, val):
            if ok:
                v = val
            else:
                val_obj = val.value
                loss_ci = None
                for c in world.conns:
                    if getattr(c, "lost_reason", None) is val_obj:
                        loss_ci = c.idx
                v = (type(val_obj).__name__, loss_ci, isinstance(val_obj, (ValueError, TypeError)))
            world.ev("F", world.seq, world.now, rid, ok, _plain(v))
            chained = None
            for st in (then or ()):
                if st.get("when", "ok") == ("ok" if ok else "err") or st.get("when") == "any":
                    r0 = world.rid
                    world._nested_step(st)
                    if st.get("chain") and world.rid > r0:
                        # the callback returns the Deferred of the call it made (Deferred chaining)
                        chained = world.deferred_objs.get(world.rid)
            if chained is not None:
                return chained
            # an application callback may hand a value on to the next callback of its chain
            return world.reqs[rid].get("cbret") if ok else None
        d.addCallbacks(lambda v: fire(True, v), lambda f: fire(False, f))

    def _api(self, conn, name, args, kwargs, rid, then):
        """Perform one API call inside a dispatch; record how it returned."""
        from twisted.internet.defer import Deferred
        proto = conn.protocol

        def snap():
            out = {}
            for k, v in vars(proto).items():
                if v is None or isinstance(v, (bool, int, float, str, dict)):
                    out[k] = repr(v)
                elif k == "state":
                    out[k] = type(v).__name__
            return out

        def call():
            st0 = type(getattr(proto, "state", None)).__name__
            self.reqs[rid]["st0"] = st0
            bad = self.reqs[rid].get("tag") == "bad"
            before = snap() if (bad or name in ("connect", "publish", "subscribe", "unsubscribe", "disconnect")) else None
            try:
                m = getattr(proto, name)
                res = m(*args, **kwargs)
                # a call that was refused (invalid arguments, or not allowed in this state) must leave
                # the protocol's scalar attributes as they were
                refused = bad or (isinstance(res, Deferred) and res.called and isinstance(res.result, failure.Failure))
                if before is not None and refused:
                    after = snap()
                    ch = sorted(k for k in set(before) | set(after) if before.get(k) != after.get(k))
                    if ch:
                        self.ev("AC", self.seq, self.now, rid, tuple(ch))
            except Exception as e:
                if before is not None:
                    after = snap()
                    ch = sorted(k for k in set(before) | set(after) if before.get(k) != after.get(k))
                    if ch:
                        self.ev("AC", self.seq, self.now, rid, tuple(ch))
                self.ev("R", self.seq, self.now, rid, "raised",
                        (type(e).__name__, isinstance(e, (ValueError, TypeError))),
                        (st0, type(getattr(proto, "state", None)).__name__))
                self.reqs[rid]["raised"] = e
                return
            if isinstance(res, Deferred):
                mid = getattr(res, "msgId", "absent")
                self.reqs[rid]["msgId"] = mid
                # was the Deferred handed back already fired?  (refusals and QoS 0 are)
                if not res.called:
                    rst = "pending"
                elif isinstance(res.result, failure.Failure):
                    rst = "failed"
                else:
                    rst = "ok"
                self.ev("R", self.seq, self.now, rid, "deferred", _plain(mid),
                        (st0, type(getattr(proto, "state", None)).__name__), rst)
                self.deferred_objs[rid] = res
                self._track_deferred(rid, res, then)
            else:
                self.ev("R", self.seq, self.now, rid, "none", _plain(res),
                        (st0, type(getattr(proto, "state", None)).__name__))
        return call

    def _run_app_step(self, st, nested=False):
        op = st["op"]
        addr = st.get("addr", "A")
        if op == "app.build":
            return self._build(addr, st)
        conn = self.handle(addr, st.get("h"))
        if op == "app.call":
            name = st["m"]
            if name == "connect" and (conn.lost or conn.transport is None or conn.transport.phase != "open"):
                # I3: the workloads never call connect() on a protocol whose transport
                # is closing or has reported the loss (a finished Twisted protocol)
                raise StepSkipped("connect() on a closing/lost transport is not part of any workload")
            args = [self.decode_arg(a) for a in st.get("a", [])]
            kwargs = {k: self.decode_arg(v) for k, v in st.get("k", {}).items()}
            self.rid += 1
            rid = self.rid
            self.reqs[rid] = {"rid": rid, "m": name, "a": st.get("a", []), "k": st.get("k", {}),
                              "addr": addr, "ci": conn.idx, "tag": st.get("tag"), "cbret": st.get("cbret")}
            info = {"rid": rid, "m": name, "a": st.get("a", []), "k": st.get("k", {}),
                    "tag": st.get("tag"), "nested": bool(nested)}
            if nested:
                self.ev("A", self.seq, self.now, conn.idx, info)
            return self.dispatch("api", conn, info, self._api(conn, name, args, kwargs, rid, st.get("then")))
        if op == "app.sethandler":
            which = st["which"]
            on = st.get("on", True)
            self._set_handler(conn, which, on, st.get("then"))
            return
        raise ValueError("unknown app step %r" % op)

    def _nested_step(self, st):
        """A step the application performs from inside a callback; a step that
        does not apply is a no-op, exactly as at top level."""
        try:
            self._run_app_step(st, nested=True)
        except StepSkipped as e:
            self.n_noop += 1
            self.note("noop nested %s: %s" % (st.get("op"), e))

    def _set_handler(self, conn, which, on, then=None):
        world = self
        if not on:
            setattr(conn.protocol, which, None)
            conn.handlers[which] = False
            return

        def cb(*args):
            world.ev("CB", world.seq, world.now, conn.idx, which, _plain(args))
            for st in (then or ()):
                world._nested_step(st)
        cb.sim_app_cb = True
        cb.__name__ = "app_" + which
        setattr(conn.protocol, which, cb)
        conn.handlers[which] = True

    def _build(self, addr, st):
        cur = self.live(addr)
        if cur is not None:
            raise StepSkipped("address has a live connection")
        conn = Conn(len(self.conns), addr, self.profile)
        self.conns.append(conn)
        self.by_addr.setdefault(addr, []).append(conn)
        conn.broker_pending_connack = False

        def mk():
            conn.protocol = self.factory.buildProtocol(addr)
            conn.transport = SimTransport(self, conn)
            for which, key in (("onPublish", "on_pub"), ("onDisconnection", "on_disc"),
                               ("onMqttConnectionMade", "on_made")):
                if st.get(key, True):
                    self._set_handler(conn, which, True, st.get(key + "_then"))
            # observation-only probe (no repo hook): where, in the order of events, does the
            # client start on each packet of a chunk that carries several?  Wraps the bound
            # method on this instance if it exists; without it the ledger falls back to a
            # coarser reading of multi-packet chunks.
            pp = getattr(conn.protocol, "_processPacket", None)
            if callable(pp):
                def wrapped(packet, _pp=pp, _ci=conn.idx):
                    self.ev("P", self.seq, self.now, _ci)
                    return _pp(packet)
                try:
                    conn.protocol._processPacket = wrapped
                except Exception:
                    pass
            conn.protocol.makeConnection(conn.transport)
        self.dispatch("make", conn, {"cbs": [bool(st.get(k, True)) for k in ("on_pub", "on_disc", "on_made")]}, mk)

    # ------------------------------------------------------------- net steps

    def _deliver(self, conn, n):
        if conn.lost or conn.transport is None or conn.transport.phase != "open":
            raise StepSkipped("not readable")
        pend = len(conn.inb) - conn.in_delivered
        if pend <= 0:
            raise StepSkipped("nothing pending")
        if n is None or n < 0 or n > pend:
            n = pend
        if n == 0:
            raise StepSkipped("zero bytes")
        chunk = bytes(conn.inb[conn.in_delivered:conn.in_delivered + n])
        conn.in_delivered += n
        # frames completed by this chunk (by the only framing MQTT has)
        frames = []
        if not conn.in_desync:
            fr, pos, err = rc.split_stream(conn.inb, conn.in_framed, conn.in_delivered)
            conn.in_framed = pos
            if err is not None:
                conn.in_desync = True
            frames = fr

        def go():
            self.ev("I", self.seq, self.now, conn.idx, frames, conn.in_desync)
            conn.protocol.dataReceived(chunk)
        r = self.dispatch("data", conn, {"n": len(chunk)}, go)
        if r is _ESCAPED and not conn.lost:
            # Twisted: an exception out of dataReceived drops the connection
            self.count("escaped_dataReceived")
            self._report_loss(conn, "exc", self.last_exc)

    def _report_loss(self, conn, kind, exc=None):
        if conn.lost:
            raise StepSkipped("already lost")
        if kind == "fin":
            reason = tierror.ConnectionDone()
        elif kind == "rst":
            reason = tierror.ConnectionLost()
        elif kind == "abort":
            reason = tierror.ConnectionAborted()
        elif kind == "exc":
            reason = exc if exc is not None else tierror.ConnectionLost()
        else:
            raise ValueError(kind)
        conn.lost = True
        conn.transport.phase = "lost"
        conn.transport.connected = False
        conn.lost_reason = reason
        f = failure.Failure(reason)

        def go():
            conn.lost_seq = self.seq
            conn.protocol.connectionLost(f)
        self.dispatch("lost", conn, {"kind": kind, "reason": type(reason).__name__}, go)

    # ------------------------------------------------------------- run steps

    def run_step(self, st):
        """Execute one step; returns False if it was a no-op."""
        self.n_steps += 1
        try:
            self._run_step(st)
            return True
        except StepSkipped as e:
            self.n_noop += 1
            self.note("noop %s: %s" % (st.get("op"), e))
            return False

    def _run_step(self, st):
        op = st["op"]
        if op.startswith("app."):
            return self._run_app_step(st)
        addr = st.get("addr", "A")
        if op == "sim.mutate":
            # the application re-uses a buffer it has passed to publish() earlier: nothing
            # the client does later may depend on that object any more
            if not self.payload_refs:
                raise StepSkipped("no bytearray was handed to the API")
            ba = self.payload_refs[-1 - (st.get("i", 0) % len(self.payload_refs))]
            ba[:] = b"OVERWRITTEN-BY-THE-APPLICATION"[:max(1, st.get("n", 30))]
            self.count("payload_buffer_reused")
            return
        if op == "sim.set_id":
            # declared harness-side state placement (C17's own quantifier): the public
            # attribute MQTTFactory.id is placed shortly before the 16-bit wrap
            self.factory.id = st["value"]
            self.count("id_counter_placed")
            return
        if op == "time.fire":
            order = self.reactor.due_order()
            if not order:
                raise StepSkipped("no timers")
            t0 = order[0].getTime()
            # a reactor runs overdue calls in due-time order: only calls due at the same
            # instant are a genuine tie
            ties = [c for c in order if c.getTime() - t0 <= EPS]
            limit = st.get("max_t")
            if (limit is not None and t0 > limit) or t0 > HORIZON:
                # beyond ~30 virtual years float time loses sub-second precision
                raise StepSkipped("beyond horizon")
            k = st.get("tie", 0) % len(ties)
            if len(ties) > 1:
                self.count("tie_choice")
                if k:
                    self.count("tie_against_list_order")
            return self._fire(ties[k])
        if op == "time.advance":
            dt = st["dt"]
            target = min(self.now + dt, HORIZON)
            guard = 0
            while True:
                order = self.reactor.due_order()
                if not order or order[0].getTime() > target + EPS:
                    break
                self._fire(order[0])
                guard += 1
                if guard >= 200:
                    # bounded step: stop here, the clock stays at the last firing
                    self.count("advance_truncated")
                    return
            if target > self.reactor.rightNow:
                self.reactor.rightNow = target
            return
        if op == "net.stall":
            if self.now + st["dt"] > HORIZON:
                raise StepSkipped("beyond horizon")
            self.reactor.rightNow += st["dt"]
            self.stalled = True
            self.count("stall")
            return
        if op == "net.deliver":
            conn = self.live(addr)
            if conn is None:
                raise StepSkipped("no live connection")
            return self._deliver(conn, st.get("n"))
        if op == "net.close":
            conn = self.live(addr)
            if conn is None or conn.transport is None:
                raise StepSkipped("no live connection")
            kind = st.get("kind", "fin")
            if not st.get("drop", False) and conn.transport.phase == "open" \
                    and len(conn.inb) > conn.in_delivered:
                self._deliver(conn, None)
                if conn.lost:
                    return
            self.count("close_" + kind)
            if conn.transport.phase != "open":
                self.count("close_during_closing")
            return self._report_loss(conn, kind)
        if op == "net.finish_close":
            conn = self.live(addr)
            if conn is None or conn.transport is None or not conn.transport.phase.startswith("closing"):
                raise StepSkipped("not closing")
            kind = "fin" if conn.transport.phase == "closing-lose" else "abort"
            self.count("finish_" + kind)
            return self._report_loss(conn, kind)
        if op.startswith("brk."):
            return self._broker_step(op, addr, st)
        raise ValueError("unknown step %r" % (op,))

    def _fire(self, dc):
        ci = self.timer_owner.get(dc.sim_tid)
        conn = self.conns[ci] if ci is not None else None
        self.reactor.pop(dc)
        label = self.timer_label.get(dc.sim_tid)

        def go():
            dc.func(*dc.args, **dc.kw)
        self.dispatch("timer", conn, {"tid": dc.sim_tid, "label": label}, go)

    # ---------------------------------------------------------- broker steps

    def _send(self, conn, raw, deliver=True, cut=None):
        """Broker puts bytes on the wire towards the client."""
        if conn.lost:
            raise StepSkipped("connection is gone")
        conn.inb.extend(raw)
        if deliver and conn.transport.phase == "open":
            if cut:
                # deliver in pieces at the given offsets (relative to pending)
                pend = len(conn.inb) - conn.in_delivered
                last = 0
                for c in sorted(set(x for x in cut if 0 < x < pend)):
                    self._deliver(conn, c - last)
                    last = c
                    if conn.lost or conn.transport.phase != "open":
                        return
                if len(conn.inb) > conn.in_delivered:
                    self._deliver(conn, None)
            else:
                self._deliver(conn, None)

    def _broker_step(self, op, addr, st):
        conn = self.live(addr)
        if conn is None or conn.transport is None:
            raise StepSkipped("no live connection")
        b = self.broker
        sess = b.session(addr)
        ver = conn.version
        dl = st.get("dl", True)
        cut = st.get("cut")
        if op == "brk.connack":
            if not st.get("force") and not b.connects.get(conn.idx):
                raise StepSkipped("no CONNECT seen")
            raw = rc.encode({"type": "CONNACK", "rc": st.get("rc", 0),
                             "session_present": st.get("sp", False), "flags": st.get("flags")}, ver)
            conn.broker_pending_connack = False
            return self._send(conn, raw, dl, cut)
        if op == "brk.ack":
            kind = st["kind"]
            mode = st.get("mode", "ok")
            need = sess.need[kind]
            if mode == "ok":
                ids = list(need)
                if not ids:
                    raise StepSkipped("nothing to acknowledge")
                i = ids[st.get("ref", 0) % len(ids)]
                extra = need.pop(i)
                sess.answered[kind].append(i)
                if kind == "PUBREC":
                    pass  # PUBCOMP becomes needed when the client's PUBREL is seen
            elif mode == "again":
                done = sess.answered[kind]
                if not done:
                    raise StepSkipped("nothing answered yet")
                i = done[-1 - (st.get("ref", 0) % len(done))]
                extra = st.get("n", 1)
                self.count("dup_ack")
            elif mode == "foreign":
                i = st["id"]
                inuse = b.ids_in_use(addr)
                if i in inuse and inuse[i] != kind:
                    raise StepSkipped("id in use by another exchange type (I7)")
                if i in inuse:
                    # it is simply the fitting ack for a live exchange
                    extra = need.pop(i)
                    sess.answered[kind].append(i)
                else:
                    extra = st.get("n", 1)
                    self.count("foreign_ack")
            else:
                raise ValueError(mode)
            pkt = {"type": kind, "id": i, "flags": st.get("flags")}
            if kind == "SUBACK":
                g = st.get("granted")
                if g is None:
                    n = extra if isinstance(extra, int) and not isinstance(extra, bool) else 1
                    g = [0] * n
                pkt["granted"] = g
            return self._send(conn, rc.encode(pkt, ver), dl, cut)
        if op == "brk.pingresp":
            mode = st.get("mode", "ok")
            if mode == "ok":
                if b.pings.get(conn.idx, 0) <= 0:
                    raise StepSkipped("no PINGREQ outstanding")
                b.pings[conn.idx] -= 1
            else:
                self.count("unsolicited_pingresp")
            return self._send(conn, rc.encode({"type": "PINGRESP"}, ver), dl, cut)
        if op == "brk.publish":
            qos = st.get("qos", 0)
            mode = st.get("mode", "new")
            if mode == "repeat":
                # repeat an unreleased QoS2 (or unacked QoS1) PUBLISH, DUP set
                # (a PUBLISH whose PUBREC the broker has seen may be repeated as well: to the
                # client that is indistinguishable from a PUBREC lost on the way)
                pool = (list(sess.tx_unrec.values()) + [v for v in sess.tx_recd.values() if isinstance(v, dict)]) \
                    if st.get("q", 2) == 2 else list(sess.tx_q1.values())
                if not pool:
                    raise StepSkipped("nothing to repeat")
                p = dict(pool[st.get("ref", 0) % len(pool)])
                p["dup"] = True
                self.count("repeat_publish")
            else:
                payload = st.get("payload", "")
                if isinstance(payload, dict):
                    payload = bytes(self.decode_arg(payload))
                else:
                    payload = payload.encode("utf-8")
                p = {"type": "PUBLISH", "qos": qos, "dup": bool(st.get("dup")), "retain": bool(st.get("retain")),
                     "topic": self.decode_arg(st.get("topic", "t")), "payload": payload, "id": st.get("id")}
                if qos > 0:
                    i = p["id"]
                    if i is None or not (1 <= i <= 65535):
                        raise StepSkipped("bad id")
                    if not st.get("misbehave"):
                        # a protocol-following broker does not reuse an id that is
                        # still part of one of its own unfinished exchanges
                        if i in sess.tx_unrec or i in sess.tx_recd or i in sess.tx_rel or i in sess.tx_q1:
                            raise StepSkipped("broker id still in use")
                    if qos == 2:
                        sess.tx_unrec[i] = p
                    else:
                        sess.tx_q1[i] = p
            return self._send(conn, rc.encode(p, ver), dl, cut)
        if op == "brk.pubrel":
            mode = st.get("mode", "ok")
            if mode == "ok":
                # release a QoS2 message whose PUBREC we have seen: it is neither in
                # tx_unrec any more nor released yet
                cand = list(sess.tx_recd)
                if not cand:
                    raise StepSkipped("no PUBREC seen")
                i = cand[st.get("ref", 0) % len(cand)]
                del sess.tx_recd[i]
                sess.tx_rel[i] = True
            elif mode == "again":
                cand = list(sess.tx_rel) + [x for x in sess.tx_done[-4:] if x not in sess.tx_unrec
                                            and x not in sess.tx_recd and x not in sess.tx_rel]
                if not cand:
                    raise StepSkipped("no PUBREL to repeat")
                i = cand[st.get("ref", 0) % len(cand)]
                self.count("repeat_pubrel")
            else:  # unknown id
                i = st["id"]
                if (i in sess.tx_unrec or i in sess.tx_recd or i in sess.tx_rel) and not st.get("misbehave"):
                    raise StepSkipped("id belongs to a live broker exchange")
                self.count("unknown_pubrel")
            pkt = {"type": "PUBREL", "id": i, "dup": bool(st.get("dup")), "flags": st.get("flags")}
            return self._send(conn, rc.encode(pkt, ver), dl, cut)
        if op == "brk.raw":
            self.count("raw_bytes")
            conn.raw_injected = True
            return self._send(conn, bytes.fromhex(st["hex"]), dl, cut)
        if op == "brk.enqueue_only":
            return self._send(conn, bytes.fromhex(st["hex"]), False)
        raise ValueError(op)

    # -------------------------------------------------------------- summaries

    def pending_timers(self):
        return [(c.sim_tid, c.getTime(), self.timer_label.get(c.sim_tid), self.timer_owner.get(c.sim_tid))
                for c in self.reactor.due_order()]

    def digest(self):
        h = hashlib.sha256()
        for e in self.events:
            if e[0] == "N":
                continue
            h.update(repr(e).encode())
        return h.hexdigest()


_ESCAPED = object()


def _plain(v):
    """Make a value JSON/hash friendly and immutable."""
    if isinstance(v, (bytes, bytearray)):
        return ("b", bytes(v).hex())
    if isinstance(v, (list, tuple)):
        return tuple(_plain(x) for x in v)
    if isinstance(v, failure.Failure):
        return ("failure", type(v.value).__name__)
    if isinstance(v, BaseException):
        return ("exc", type(v).__name__)
    if v is None or isinstance(v, (bool, int, float, str)):
        return v
    return ("obj", type(v).__name__)
