"""Trace-derived ledger.  Consumes the World's event log dispatch by dispatch,
parses the wire with the reference codec and keeps one record per request,
inbound exchange, connection and timer.  It only *records*; the rules live in
sim/rules_*.py and are evaluated by Ledger.after_dispatch()."""
from sim import refcodec as rc

RETX_TYPES = ("PUBLISH", "PUBREL", "SUBSCRIBE", "UNSUBSCRIBE")


class Violation(object):
    __slots__ = ("prop", "rule", "key", "msg", "seq")

    def __init__(self, prop, rule, key, msg, seq):
        self.prop, self.rule, self.key, self.msg, self.seq = prop, rule, key, msg, seq

    @property
    def sig(self):
        return "%s.%s:%s" % (self.prop, self.rule, self.key)

    def __repr__(self):
        return "<%s @%s %s>" % (self.sig, self.seq, self.msg)


class Disp(object):
    """Everything that happened in one top-level dispatch."""

    def __init__(self, seq, t, kind, addr, ci, info):
        self.seq, self.t, self.kind, self.addr, self.ci, self.info = seq, t, kind, addr, ci, info
        self.writes = []      # OutPkt (complete packets finished by writes of this dispatch)
        self.raw_writes = []  # (ci, bytes, phase)
        self.timers_new = []  # (tid, due, label, ci)
        self.timers_cancel = []
        self.fires = []       # (rid, ok, val)
        self.cbs = []         # (ci, name, args)
        self.xcalls = []      # (ci, what)
        self.excs = []        # (where, type, msg)
        self.frames = []      # InFrame
        self.rets = []        # (rid, how, val)
        self.apis = []        # info dicts of API calls (top-level first, then nested)
        self.jit = []         # jitter values served
        self.order = []       # ("W", OutPkt) / ("TN", tid) / ("CB", ...) / ("F", ...) in order
        self.desync = False
        self.coarse = False       # multi-packet chunk whose internal order is unknown
        self.unprocessed = []

    def effect_free(self):
        return not (self.raw_writes or self.timers_new or self.timers_cancel or self.fires
                    or self.cbs or self.xcalls or self.excs)


class OutPkt(object):
    def __init__(self, seq, t, ci, raw, pkt, err, phase):
        self.seq, self.t, self.ci, self.raw, self.pkt, self.err, self.phase = seq, t, ci, raw, pkt, err, phase
        self.type = pkt["type"] if pkt else rc.peek_type(raw)
        self.req = None
        self.first = False
        self.timer = None
        self.n = 0


class InFrame(object):
    __slots__ = ("raw", "ok", "pkt", "err", "type")

    def __init__(self, raw, ok, pkt, err):
        self.raw, self.ok, self.pkt, self.err = raw, ok, pkt, err
        self.type = pkt["type"] if pkt else rc.peek_type(raw)


class ConnL(object):
    def __init__(self, ci, addr, profile):
        self.ci, self.addr, self.profile = ci, addr, profile
        self.state = "built"        # built connecting connected refused lost
        self.closing = None         # None | "lose" | "abort"
        self.closing_seq = None
        self.made_seq = None
        self.connects = []          # ConnReq accepted (Deferred pending returned)
        self.cur_connect = None
        self.version = rc.V311
        self.clean = None
        self.keepalive = 0
        self.connack_seq = None
        self.connack_t = None
        self.lost_seq = None
        self.lost_t = None
        self.lost_kind = None
        self.lost_reason = None
        self.handlers = {"onPublish": False, "onDisconnection": False, "onMqttConnectionMade": False}
        self.window = 1
        self.timeout = 4
        self.bw = (10000, 2)
        self.outbuf = bytearray()
        self.outpos = 0
        self.out = []               # OutPkt
        self.n_connect_pkts = 0
        self.disconnect_written = False
        self.pings = []             # [t_written, seq, answered_t|None, timer tid]
        self.notify_expected = False
        self.notify_calls = 0
        self.aborts = []            # (seq, t, dispatch kind, label)
        self.had_stall = False
        self.writes_after_disc = 0
        self.first_write_seq = None
        self.connect_called_seq = None


class Req(object):
    """One API request (connect / publish / subscribe / unsubscribe)."""

    def __init__(self, rid, kind, addr, ci, seq, t):
        self.rid, self.kind, self.addr, self.ci, self.seq, self.t = rid, kind, addr, ci, seq, t
        self.args = {}
        self.valid = True
        self.allowed = True
        self.judged = True          # False inside the closing interval (I11)
        self.how = None             # deferred | raised | none
        self.exc = None
        self.msgId = "absent"
        self.fires = []             # (seq, ok, val)
        self.accepted = False
        self.tx = []                # OutPkt list (PUBLISH / SUBSCRIBE / UNSUBSCRIBE)
        self.rel_tx = []            # OutPkt list (PUBREL)
        self.ack1 = None            # seq of PUBACK / PUBREC / SUBACK / UNSUBACK delivered
        self.ack2 = None            # seq of PUBCOMP delivered
        self.ended = None           # seq at which the request was settled
        self.end_why = None
        self.dead_after = None      # clean loss seq after which nothing of it may be written
        self.timeout0 = None        # initial timeout in force at first tx
        self.rel_timeout0 = None
        self.window_at_call = None
        self.state_at_call = None
        self.nested = False
        self.tag = None
        self.qos = None
        self.refusal = None
        self.ret_state = None

    @property
    def pending(self):
        return self.accepted and not self.fires

    @property
    def open(self):
        """Like pending, but follows the order of events inside the dispatch that
        is being replayed (fires are appended to .fires by the scan before)."""
        return self.accepted and self.ended is None

    def pending_before(self, seq):
        return self.accepted and self.seq < seq and (not self.fires or self.fires[0][0] >= seq)

    def stage(self):
        if not self.accepted:
            return "rejected"
        if self.fires:
            return "ok" if self.fires[0][1] else "failed"
        if self.kind == "publish":
            if not self.tx:
                return "held"
            if self.qos == 2 and self.ack1 is not None:
                return "await-PUBCOMP"
            return "await-PUBACK" if self.qos == 1 else "await-PUBREC"
        if not self.tx:
            return "unsent"
        return "await-ack"


class InEx(object):
    """Inbound QoS 2 exchange on one address."""

    def __init__(self, mid, seq):
        self.mid, self.seq = mid, seq
        self.copies = []     # pkt dicts
        self.delivered = 0
        self.rels = 0
        self.clean_reconnect_since = False


class Sess(object):
    """Per-address bookkeeping that outlives connections."""

    def __init__(self, addr):
        self.addr = addr
        self.fifo = []          # accepted publishes not yet first-transmitted, call order
        self.dead_fifo = []     # QoS 0 publishes of a discarded session (must not / need not be sent)
        self.by_id = {}         # (kind-class, id) -> unfinished Req ; kind-class: "pub" "sub" "unsub"
        self.done_by_id = {}    # same key -> last finished Req
        self.inex = {}          # id -> InEx (open inbound QoS2 exchanges)
        self.reqs = []
        self.tainted = set()    # properties whose ledger view is no longer reliable
