"""Seeded, swarm-style, state-aware step generator.

One random.Random(seed) decides everything.  make_config() draws the per-run
configuration; Gen.next() looks at the current world/ledger so that choices are
relevant (acks for packets that exist, faults while something is in flight)
and returns the next JSON step.  The explicit step list is what gets replayed;
the generator is never needed for replay."""
import os
import random

from sim import refcodec as rc

FAMILIES = ("general", "publisher", "subscriber", "subreq", "silence", "qos2", "window", "clean", "persistent",
            "handshake", "gate", "keepalive", "hostile", "ids", "closing", "args", "wire", "resume")

ALPH = ["a", "b", "/", "x", "é", "€", "\U0001F600", "0", "Z", "ñ"]


def _w(rng, items):
    tot = sum(w for _, w in items)
    r = rng.random() * tot
    for v, w in items:
        r -= w
        if r <= 0:
            return v
    return items[-1][0]


def make_config(rng, family):
    cfg = {"family": family}
    cfg["profile"] = _w(rng, [(3, 5), (2, 3), (1, 3)])
    if family in ("publisher", "silence", "qos2", "window", "persistent", "clean", "ids"):
        cfg["profile"] = _w(rng, [(3, 4), (2, 4)])
    if family == "resume":
        cfg["profile"] = _w(rng, [(3, 5), (2, 4), (1, 1)])
    if family in ("subscriber", "subreq"):
        cfg["profile"] = _w(rng, [(3, 4), (1, 4)])
    cfg["version"] = _w(rng, [(4, 6), (3, 4)])
    cfg["session"] = _w(rng, [("clean", 4), ("persistent", 4), ("mixed", 3)])
    if family == "clean":
        cfg["session"] = "clean"
    if family in ("persistent", "qos2"):
        cfg["session"] = _w(rng, [("persistent", 6), ("mixed", 2)])
    if family == "resume":
        cfg["session"] = "mixed"
    cfg["keepalive"] = _w(rng, [(0, 6), (1, 1), (2, 1), (5, 2), (60, 1), (65535, 1)])
    if family == "keepalive":
        cfg["keepalive"] = _w(rng, [(0, 1), (1, 2), (2, 2), (5, 3), (60, 2), (65535, 1), (rng.randint(1, 65535), 2)])
    if family in ("silence", "window", "ids", "wire"):
        cfg["keepalive"] = _w(rng, [(0, 8), (5, 1), (60, 1)])
    cfg["jitter"] = _w(rng, [("half", 3), ("zero", 2), ("rand", 4), ("alt", 2), ("max", 1)])
    cfg["jseed"] = rng.randrange(1 << 30)
    cfg["start_id"] = None
    if family == "ids" or rng.random() < 0.08:
        cfg["start_id"] = rng.choice([65530, 65531, 65532, 65533, 65534, 65535, 65529, 65500])
    cfg["two_addr"] = rng.random() < 0.14
    deep = bool(os.environ.get("VERIF_DEEP"))        # thorough tier: more long histories
    n = _w(rng, [((5, 25), 5), ((20, 60), 4), ((60, 200), 2 if not deep else 3), ((200, 600), 0.4 if not deep else 1.5),
                 ((600, 2000), 0.0 if not deep else 0.4)])
    cfg["length"] = rng.randint(*n)
    cfg["window"] = _w(rng, [(1, 3), (2, 2), (3, 2), (rng.randint(1, 16), 2), (16, 1)])
    cfg["window_changes"] = rng.random() < (0.6 if family in ("window", "subreq") else 0.25)
    cfg["timeout"] = _w(rng, [(None, 4), (1, 2), (2, 1), (rng.randint(1, 1024), 2), (1024, 0.5)])
    cfg["bw"] = _w(rng, [(None, 6), ((100, 2), 1), ((10, 3), 1), ((1000.5, 1), 1)])
    cfg["payload_class"] = _w(rng, [("tiny", 8), ("small", 3), ("b127", 1), ("b16k", 0.5 if family != "wire" else 3),
                                    ("b2m", 0.0 if family != "wire" else 0.3)])
    cfg["chunking"] = _w(rng, [("whole", 6), ("random", 3), ("bytes", 1)])
    cfg["coalesce"] = rng.random() < (0.45 if family in ("subreq", "subscriber", "qos2") else 0.3)
    cfg["faults"] = {
        "close": rng.random() < 0.7,
        "dup_ack": rng.random() < 0.6,
        "foreign_ack": rng.random() < 0.5,
        "stall": rng.random() < (0.15 if family not in ("keepalive",) else 0.0),
        "closing_activity": rng.random() < (0.8 if family == "closing" else 0.4),
        "raw": family == "hostile" or rng.random() < 0.05,
        "reentrant": rng.random() < (0.7 if family == "resume" else (0.6 if cfg["two_addr"] else 0.3)),
        "stale_handle": rng.random() < 0.4,
        "alias": rng.random() < 0.3,
        "burst": rng.random() < (0.25 if family in ("window", "publisher", "general", "clean", "persistent") else 0.05),
    }
    if family == "ids":
        cfg["faults"]["reentrant"] = rng.random() < 0.7
    if family == "wire":
        cfg["faults"]["close"] = rng.random() < 0.3
    cfg["fault_rate"] = _w(rng, [(0.03, 3), (0.08, 3), (0.15, 2), (0.0, 1)])
    cfg["handlers"] = [rng.random() < 0.9, rng.random() < 0.8, rng.random() < 0.5]
    return cfg


# ------------------------------------------------------------------ values

def gen_text(rng, n=None, alphabet=ALPH):
    if n is None:
        n = _w(rng, [(1, 4), (2, 3), (3, 3), (5, 2), (9, 1)])
    return "".join(rng.choice(alphabet) for _ in range(n))


def gen_topic(rng, filt=False):
    t = gen_text(rng)
    if filt and rng.random() < 0.3:
        t = t + rng.choice(["/#", "/+", "/+/x"])
    return t


def gen_payload(rng, cfg, as_arg=True):
    """Returns (arg-language value for publish(), description)."""
    cls = cfg.get("payload_class", "tiny")
    if rng.random() < 0.6:
        cls = "tiny"
    if cls == "tiny":
        s = gen_text(rng, rng.randint(0, 4))
    elif cls == "small":
        s = gen_text(rng, rng.randint(5, 40))
    elif cls == "b127":
        n = rng.choice([120, 121, 122, 123, 124, 125, 126, 127, 128, 129, 130])
        return ({"$": "barep", "s": "p", "n": n} if rng.random() < 0.5 else {"$": "rep", "s": "p", "n": n})
    elif cls == "b16k":
        n = rng.choice([16370, 16375, 16380, 16383, 16384, 16385, 16390, 20000])
        return {"$": "barep", "s": "q", "n": n} if rng.random() < 0.5 else {"$": "rep", "s": "q", "n": n}
    else:
        n = rng.choice([2097140, 2097150, 2097152, 2097160])
        return {"$": "barep", "s": "r", "n": n}
    if rng.random() < 0.4:
        return {"$": "ba", "v": s}
    return s


class Gen(object):
    def __init__(self, rng, cfg):
        self.rng = rng
        self.cfg = cfg
        self.addrs = ["A", "B"] if cfg.get("two_addr") else ["A"]
        self.n = 0
        self.fam = cfg["family"]
        self.in_id = 0

    # ---------------------------------------------------------------- helpers

    def _conn_state(self, L, w, addr):
        lst = w.by_addr.get(addr, [])
        if not lst:
            return None, None
        wc = lst[-1]
        lc = L.conns.get(wc.idx)
        return wc, lc

    def connect_step(self, addr, w, L):
        rng, cfg = self.rng, self.cfg
        sess = cfg["session"]
        clean = True if sess == "clean" else (False if sess == "persistent" else rng.random() < 0.4)
        k = {"keepalive": cfg["keepalive"], "cleanStart": clean}
        if rng.random() < 0.12:
            # not every connect() of an application uses the same keepalive
            k["keepalive"] = rng.choice([0, 0, 1, 2, 5, 60])
        ver = cfg["version"]
        k["version"] = {"$": "v31"} if ver == 3 else {"$": "v311"}
        if self.fam in ("wire", "handshake", "args") or rng.random() < 0.15:
            if rng.random() < 0.5:
                k["willTopic"] = gen_topic(rng)
                k["willMessage"] = gen_text(rng, rng.randint(0, 6))
                k["willQoS"] = rng.randint(0, 2)
                k["willRetain"] = rng.random() < 0.5
            if rng.random() < 0.5:
                k["username"] = gen_text(rng)
                if rng.random() < 0.6:
                    k["password"] = gen_text(rng, rng.randint(0, 6))
        cid = gen_text(rng, rng.randint(1, 8), alphabet=["c", "l", "1", "é", "-"])
        if rng.random() < 0.08:
            # identifiers at the MQTT 3.1 limit of 23 characters - which is not 23 bytes
            cid = rng.choice(["x" * 23, "é" * 23, "€" * 12, "€" * 23, "😀" * 6, "ü" * 12, "😀" * 23, "c" * 22 + "é"])
        if rng.random() < 0.06:
            # a flag is a flag by its truth value (int() of a configuration entry, say)
            k["cleanStart"] = 1 if clean else 0
        # leave arguments at their documented defaults now and then
        if k["keepalive"] == 0 and rng.random() < 0.5:
            del k["keepalive"]
        if clean and rng.random() < 0.5:
            del k["cleanStart"]
        if ver == 4 and rng.random() < 0.5:
            del k["version"]
        st = {"op": "app.call", "addr": addr, "m": "connect", "a": [cid], "k": k}
        if cfg["faults"]["reentrant"] and rng.random() < 0.4:
            then = []
            prof = cfg["profile"]
            if prof & 1 and rng.random() < 0.5:
                then.append({"op": "app.call", "addr": addr, "m": "subscribe", "a": [gen_topic(rng, True), rng.randint(0, 2)], "when": "ok"})
            if prof & 2 and rng.random() < 0.5:
                then.append({"op": "app.call", "addr": addr, "m": "publish",
                             "k": {"topic": gen_topic(rng), "message": gen_text(rng, 2), "qos": rng.randint(0, 2)}, "when": "ok"})
            if rng.random() < 0.2:
                # the application changes its mind as soon as it is connected
                then.append({"op": "app.call", "addr": addr, "m": "disconnect", "when": "ok"})
            r = rng.random()
            if r < 0.25:
                # ... or reacts to a refusal / timeout from inside the errback
                then.append(self.reaction(addr, rng.choice(["publish", "connect", "subscribe"]), "err"))
            if then:
                st["then"] = then
        return st

    def resume_script(self, addr):
        """Family `resume`: a scripted opening - a first connection that leaves requests in
        every stage (sent, half-acknowledged, held back), its end, a second protocol for the
        same address that connects persistent or clean, requests before its CONNACK - with
        seeded choices and application reactions; the state-aware generator then takes over.
        Steps that do not apply are no-ops."""
        rng, cfg = self.rng, self.cfg
        prof = cfg["profile"]
        vv = {"$": "v31"} if cfg["version"] == 3 else {"$": "v311"}
        re = cfg["faults"]["reentrant"]

        def react(st, whens):
            if re and rng.random() < 0.4:
                what = rng.choice(["disconnect", "disconnect", "publish", "subscribe", "unsubscribe", "connect"])
                if what == "publish" and not prof & 2:
                    what = "subscribe"
                if what in ("subscribe", "unsubscribe") and not prof & 1:
                    what = "publish" if prof & 2 else "disconnect"
                st["then"] = [self.reaction(addr, what, rng.choice(whens))]
            return st

        def pub(q=None):
            q = rng.choice([1, 2, 2, 1, 0]) if q is None else q
            return react({"op": "app.call", "addr": addr, "m": "publish",
                          "k": {"topic": gen_topic(rng), "message": gen_text(rng, rng.randint(0, 4)), "qos": q}},
                         ["err", "err", "any", "ok"])

        def conn(clean):
            return {"op": "app.call", "addr": addr, "m": "connect", "a": ["res"],
                    "k": {"cleanStart": clean, "keepalive": cfg["keepalive"], "version": vv}}
        out = [{"op": "app.build", "addr": addr, "on_pub": cfg["handlers"][0], "on_disc": cfg["handlers"][1], "on_made": cfg["handlers"][2]}]
        w1 = rng.choice([1, 1, 2, 3])
        if w1 != 1:
            out.append({"op": "app.call", "addr": addr, "m": "setWindowSize", "a": [w1]})
        if cfg["timeout"] is not None:
            out.append({"op": "app.call", "addr": addr, "m": "setTimeout", "a": [cfg["timeout"]]})
        out.append(conn(rng.random() < 0.2))
        pre1 = rng.random() < 0.3
        if pre1 and prof & 2:
            out.append(pub())
        out.append({"op": "brk.connack", "addr": addr, "rc": 0})
        last_ack_disconnects = False
        if prof & 2:
            npub = rng.randint(1, 4)
            for i_ in range(npub):
                st_ = pub()
                if i_ == 0 and npub > 1 and st_["k"]["qos"] and rng.random() < 0.25:
                    # the acknowledgement of the only message in flight makes the application
                    # disconnect while others are still held back
                    st_["then"] = [self.reaction(addr, "disconnect", "ok")]
                    last_ack_disconnects = st_["k"]["qos"]
                out.append(st_)
        if last_ack_disconnects:
            if last_ack_disconnects == 1:
                out.append({"op": "brk.ack", "addr": addr, "kind": "PUBACK", "ref": 0})
            else:
                out.append({"op": "brk.ack", "addr": addr, "kind": "PUBREC", "ref": 0})
                out.append({"op": "brk.ack", "addr": addr, "kind": "PUBCOMP", "ref": 0})
            out.append({"op": "net.finish_close", "addr": addr})
        if prof & 1:
            for _ in range(rng.randint(0, 2)):
                out.append(react({"op": "app.call", "addr": addr, "m": rng.choice(["subscribe", "unsubscribe"]),
                                  "a": [gen_topic(rng, True)]}, ["ok", "err", "any"]))
            if rng.random() < 0.5:
                out.append({"op": "brk.publish", "addr": addr, "qos": 2, "topic": gen_topic(rng), "payload": "in", "id": rng.choice([1, 2, 7])})
        r = rng.random()
        if r < 0.5:
            out.append({"op": "brk.ack", "addr": addr, "kind": "PUBREC", "ref": 0})
        elif r < 0.7:
            out.append({"op": "brk.ack", "addr": addr, "kind": "PUBACK", "ref": 0})
        if rng.random() < 0.25:
            out.append({"op": "time.fire", "tie": 0})
        # the first connection ends
        how = rng.choice(["fin", "rst", "disconnect", "fin"])
        if how == "disconnect":
            out.append({"op": "app.call", "addr": addr, "m": "disconnect"})
            out.append({"op": "net.finish_close", "addr": addr})
        else:
            out.append({"op": "net.close", "addr": addr, "kind": how, "drop": rng.random() < 0.3})
        # the second protocol
        out.append({"op": "app.build", "addr": addr, "on_pub": cfg["handlers"][0], "on_disc": cfg["handlers"][1], "on_made": cfg["handlers"][2]})
        w2 = rng.choice([1, 1, 2, 4, 16])
        if w2 != 1:
            out.append({"op": "app.call", "addr": addr, "m": "setWindowSize", "a": [w2]})
        if rng.random() < 0.15:
            out.append(self.bad_connect(addr))          # refused up front: must leave no trace
        out.append(conn(rng.random() < 0.5))
        if prof & 2:
            for _ in range(rng.randint(0, 2)):
                out.append(pub())
        if rng.random() < 0.3:
            # the second connection never gets its CONNACK; a third protocol takes over
            out.append({"op": "net.close", "addr": addr, "kind": rng.choice(["fin", "rst"]), "drop": rng.random() < 0.3})
            out.append({"op": "app.build", "addr": addr, "on_pub": cfg["handlers"][0], "on_disc": cfg["handlers"][1],
                        "on_made": cfg["handlers"][2]})
            if rng.random() < 0.5:
                out.append({"op": "app.call", "addr": addr, "m": "setWindowSize", "a": [rng.choice([2, 4, 16])]})
            out.append(conn(rng.random() < 0.3))
        ck = {"op": "brk.connack", "addr": addr, "rc": 0 if rng.random() < 0.9 else rng.randint(1, 5), "sp": rng.random() < 0.5}
        if rng.random() < 0.3:
            ck["dl"] = False
        out.append(ck)
        if rng.random() < 0.4:
            # acknowledgements of what was re-sent, old timers
            out.append({"op": "brk.ack", "addr": addr, "kind": rng.choice(["PUBREC", "PUBACK"]), "ref": 0})
            out.append({"op": "time.fire", "tie": rng.randint(0, 2)})
            out.append({"op": "time.fire", "tie": 0})
        return out

    def reaction(self, addr, what, when):
        """An API call the application makes from inside a callback."""
        rng = self.rng
        if len(self.addrs) > 1 and rng.random() < 0.45:
            # ... possibly on its connection to the other broker (fail-over)
            addr = [a for a in self.addrs if a != addr][0]
        if what == "publish":
            st = {"op": "app.call", "addr": addr, "m": "publish",
                  "k": {"topic": gen_topic(rng), "message": "rx", "qos": rng.randint(0, 2)}, "when": when}
            if rng.random() < 0.12:
                st["chain"] = True     # the callback returns the new call's Deferred (Deferred chaining)
            return st
        if what == "subscribe":
            return {"op": "app.call", "addr": addr, "m": "subscribe", "a": [gen_topic(rng, True), rng.randint(0, 2)], "when": when}
        if what == "unsubscribe":
            return {"op": "app.call", "addr": addr, "m": "unsubscribe", "a": [gen_topic(rng, True)], "when": when}
        if what == "disconnect":
            return {"op": "app.call", "addr": addr, "m": "disconnect", "when": when}
        if what == "connect":
            return {"op": "app.call", "addr": addr, "m": "connect", "a": ["retry"],
                    "k": {"cleanStart": rng.random() < 0.5,
                          "keepalive": self.cfg["keepalive"] if rng.random() < 0.5 else rng.choice([0, 0, 1, 5, 60]),
                          "version": {"$": "v31"} if self.cfg["version"] == 3 else {"$": "v311"}}, "when": when}
        raise ValueError(what)

    def publish_step(self, addr, h=None, qos=None):
        rng, cfg = self.rng, self.cfg
        if qos is None:
            if self.fam == "qos2":
                qos = _w(rng, [(2, 7), (1, 2), (0, 1)])
            elif self.fam in ("window", "clean", "persistent"):
                qos = _w(rng, [(0, 3), (1, 4), (2, 3)])
            else:
                qos = rng.randint(0, 2)
        st = {"op": "app.call", "addr": addr, "m": "publish",
              "k": {"topic": gen_topic(rng), "message": gen_payload(rng, cfg), "qos": qos}}
        if rng.random() < 0.3:
            st["k"]["retain"] = rng.random() < 0.7
        if qos == 0 and rng.random() < 0.5:
            del st["k"]["qos"]          # documented default
        if rng.random() < 0.06:
            st["cbret"] = "app-value"   # the application's callback returns something
        if h:
            st["h"] = h
        if cfg["faults"]["reentrant"] and rng.random() < (0.3 if self.fam == "ids" else (0.45 if len(self.addrs) > 1 else 0.2)) and qos > 0:
            if rng.random() < (0.5 if self.fam == "ids" else 0.25):
                st["then"] = [self.reaction(addr, "disconnect", "ok")]
            elif rng.random() < 0.45:
                # whatever the application does when a publish fails (the failure may come from
                # another connection to the same address than the one it acts on)
                st["then"] = [self.reaction(addr, rng.choice(["disconnect", "disconnect", "subscribe", "unsubscribe", "connect"]),
                                            rng.choice(["err", "err", "any"]))]
            else:
                st["then"] = [{"op": "app.call", "addr": addr, "m": "publish",
                               "k": {"topic": gen_topic(rng), "message": "re", "qos": rng.randint(0, 2)},
                               "when": rng.choice(["ok", "ok", "err", "any"])}]
        return st

    def subscribe_step(self, addr, h=None):
        rng = self.rng
        shape = rng.choice(["str", "tuple", "list", "list"])
        if shape == "str":
            a = [gen_topic(rng, True), rng.randint(0, 2)]
            if a[1] == 0 and rng.random() < 0.5:
                a = a[:1]               # documented default QoS
        elif shape == "tuple":
            a = [{"$": "tuple", "v": [gen_topic(rng, True), rng.randint(0, 2)]}]
        else:
            a = [[{"$": "tuple", "v": [gen_topic(rng, True), rng.randint(0, 2)]} for _ in range(rng.randint(1, 4))]]
        if rng.random() < (0.04 if self.fam in ("subreq", "wire", "subscriber") else 0.01):
            # one request naming very many topics: its SUBACK is a long packet as well
            a = [{"$": "topics", "n": rng.choice([126, 127, 130, 253, 254, 255, 300, 1000]),
                  "q": [rng.randint(0, 2) for _ in range(rng.randint(1, 3))], "p": rng.choice(["t/", "é/", "x"])}]
        st = {"op": "app.call", "addr": addr, "m": "subscribe", "a": a}
        if h:
            st["h"] = h
        if self.cfg["faults"]["reentrant"] and rng.random() < 0.25:
            # the application reacts to the outcome from inside the callback
            nxt = rng.choice(["subscribe", "subscribe", "unsubscribe", "publish", "disconnect"]
                             + (["disconnect", "disconnect"] if self.cfg.get("coalesce") else []))
            if nxt == "disconnect":
                st["then"] = [self.reaction(addr, "disconnect", rng.choice(["ok", "ok", "err", "any"]))]
            if nxt == "subscribe":
                st["then"] = [{"op": "app.call", "addr": addr, "m": "subscribe", "a": [gen_topic(rng, True), rng.randint(0, 2)],
                               "when": rng.choice(["ok", "ok", "any"])}]
            elif nxt == "unsubscribe":
                st["then"] = [{"op": "app.call", "addr": addr, "m": "unsubscribe", "a": [gen_topic(rng, True)], "when": "ok"}]
            elif self.cfg["profile"] & 2:
                st["then"] = [{"op": "app.call", "addr": addr, "m": "publish",
                               "k": {"topic": gen_topic(rng), "message": "s", "qos": rng.randint(0, 2)}, "when": "ok"}]
        return st

    def unsubscribe_step(self, addr, h=None):
        rng = self.rng
        if rng.random() < 0.5:
            a = [gen_topic(rng, True)]
        else:
            a = [[gen_topic(rng, True) for _ in range(rng.randint(1, 3))]]
        if rng.random() < (0.03 if self.fam in ("subreq", "wire", "subscriber") else 0.01):
            a = [{"$": "names", "n": rng.choice([127, 130, 300, 1000, 9000]), "p": rng.choice(["t/", "é/", "x"])}]
        st = {"op": "app.call", "addr": addr, "m": "unsubscribe", "a": a}
        if h:
            st["h"] = h
        if self.cfg["faults"]["reentrant"] and rng.random() < 0.25:
            st["then"] = [{"op": "app.call", "addr": addr, "m": rng.choice(["unsubscribe", "unsubscribe", "subscribe"]),
                           "a": [gen_topic(rng, True)], "when": rng.choice(["ok", "ok", "any"])}]
        return st

    def inbound_publish(self, addr, w):
        rng = self.rng
        qos = _w(rng, [(0, 2), (1, 3), (2, 5)]) if self.fam == "subscriber" else rng.randint(0, 2)
        self.in_id += 1
        mid = None
        if qos:
            sess = w.broker.session(addr)
            busy = set(sess.tx_unrec) | set(sess.tx_recd) | set(sess.tx_rel) | set(sess.tx_q1)
            pool = [i for i in (1, 2, 3, 7, 300, 65535, (self.in_id % 60000) + 10) if i not in busy]
            mid = rng.choice(pool) if pool else None
            if mid is None:
                qos = 0
        payload = gen_text(rng, rng.randint(0, 5))
        if rng.random() < 0.1:
            payload = {"$": "barep", "s": "i", "n": rng.choice([125, 130, 16380, 16390])}
        if self.fam in ("wire", "subscriber") and rng.random() < 0.012:
            # remaining length that needs all four length bytes
            payload = {"$": "barep", "s": "j", "n": rng.choice([2097140, 2097152, 2097200])}
        topic = gen_topic(rng)
        if self.fam in ("wire", "subscriber", "general") and rng.random() < 0.02:
            # topic names in the upper half of the 16-bit length range
            ch = rng.choice(["a", "a", "é", "€"])
            nb = rng.choice([32767, 32768, 32769, 40000, 65535])
            topic = {"$": "rep", "s": ch, "n": nb // len(ch.encode("utf-8"))}
        st = {"op": "brk.publish", "addr": addr, "qos": qos, "topic": topic, "payload": payload,
              "retain": rng.random() < 0.3, "dup": (rng.random() < 0.2 and qos > 0)}
        if mid is not None:
            st["id"] = mid
        return st

    def cut_for(self, w, addr, step):
        """Optionally turn `dl` delivery into a chunked one, or hold the packet back
        so that it arrives in one chunk with later ones."""
        if self.cfg.get("coalesce") and self.rng.random() < 0.35:
            step["dl"] = False
            return step
        ch = self.cfg["chunking"]
        if ch == "whole" or self.rng.random() < 0.5:
            return step
        if ch == "bytes":
            step["cut"] = list(range(1, 64))
        else:
            step["cut"] = sorted(set(self.rng.randint(1, 12) for _ in range(self.rng.randint(1, 3))))
        return step

    # ------------------------------------------------------------------- next

    def next(self, w, L):
        self.n += 1
        if self.fam == "resume" and self.n == 1:
            self._queue = self.resume_script(self.addrs[0])
        if getattr(self, "_queue", None):
            return self._queue.pop(0)
        rng, cfg = self.rng, self.cfg
        addr = rng.choice(self.addrs)
        wc, lc = self._conn_state(L, w, addr)
        F = cfg["faults"]
        fam = self.fam
        # ---- no protocol or the last one is gone: rebuild (sometimes use the stale handle first)
        if wc is None or wc.lost:
            if wc is not None and F["stale_handle"] and rng.random() < 0.25:
                return self.gate_call(addr, "cur", w, L)
            if wc is not None and rng.random() < 0.15 and w.pending_timers():
                return {"op": "time.fire", "tie": rng.randint(0, 3)}
            b = {"op": "app.build", "addr": addr, "on_pub": cfg["handlers"][0], "on_disc": cfg["handlers"][1],
                 "on_made": cfg["handlers"][2]}
            if F["reentrant"] and cfg["handlers"][0] and rng.random() < 0.25:
                # what the application does from inside onPublish (I12 keeps C03 runs free of this)
                what = rng.choice(["publish", "publish", "disconnect", "unsubscribe"])
                if what == "publish" and not cfg["profile"] & 2:
                    what = "unsubscribe"
                b["on_pub_then"] = [self.reaction(addr, what, "any")]
            if F["reentrant"] and cfg["handlers"][2] and rng.random() < 0.3:
                # ... and from inside onMqttConnectionMade
                what = rng.choice(["publish", "subscribe", "disconnect", "disconnect"])
                if what == "publish" and not cfg["profile"] & 2:
                    what = "subscribe"
                if what == "subscribe" and not cfg["profile"] & 1:
                    what = "publish"
                b["on_made_then"] = [self.reaction(addr, what, "any")]
            return b
        phase = wc.transport.phase
        st = lc.state if lc is not None else "built"
        # ---- closing interval
        if phase.startswith("closing"):
            if F["closing_activity"] and rng.random() < 0.6:
                k = _w(rng, [("fire", 4), ("publish", 3), ("sub", 1), ("advance", 1), ("disc", 0.5), ("setw", 1.2)])
                if k == "setw":
                    return {"op": "app.call", "addr": addr, "m": rng.choice(["setWindowSize", "setWindowSize", "setTimeout"]),
                            "a": [rng.choice([1, 2, 4, 16])]}
                if k == "fire" and w.pending_timers():
                    return {"op": "time.fire", "tie": rng.randint(0, 3)}
                if k == "publish" and cfg["profile"] & 2:
                    return self.publish_step(addr)
                if k == "sub" and cfg["profile"] & 1:
                    return self.subscribe_step(addr)
                if k == "disc":
                    return {"op": "app.call", "addr": addr, "m": "disconnect"}
                if k == "advance":
                    return {"op": "time.advance", "dt": rng.choice([0.5, 1, 4, 16])}
            return {"op": "net.finish_close", "addr": addr}
        # ---- built / refused: configure and connect
        if st in ("built", "refused"):
            r = rng.random()
            if st == "refused" and r < 0.5:
                return {"op": "net.close", "addr": addr, "kind": "fin"}
            if st == "built":
                if not getattr(wc, "_cfgd", False):
                    wc._cfgd = True
                    if cfg["window"] != 1 and rng.random() < 0.85:
                        return {"op": "app.call", "addr": addr, "m": "setWindowSize", "a": [cfg["window"]]}
                if not getattr(wc, "_cfgt", False):
                    wc._cfgt = True
                    if cfg["timeout"] is not None:
                        return {"op": "app.call", "addr": addr, "m": "setTimeout", "a": [cfg["timeout"]]}
                if not getattr(wc, "_cfgb", False):
                    wc._cfgb = True
                    if cfg["bw"] is not None:
                        return {"op": "app.call", "addr": addr, "m": "setBandwith", "a": list(cfg["bw"])}
                if r < 0.04 and F["close"]:
                    return {"op": "net.close", "addr": addr, "kind": rng.choice(["fin", "rst"])}
                if (fam == "args" and r < 0.45) or (fam in ("persistent", "general", "handshake") and r < 0.09):
                    return self.bad_connect(addr)
                if r < 0.10:
                    return self.gate_call(addr, "cur", w, L)
            if fam in ("args", "wire", "handshake") and rng.random() < 0.3:
                return self.boundary_connect(addr)
            return self.connect_step(addr, w, L)
        # ---- connecting
        if st == "connecting":
            acts = [("connack", 10)]
            if cfg["profile"] & 2:
                acts.append(("publish", 4 if fam in ("persistent", "clean", "general", "qos2", "closing", "ids", "handshake") else 1.5))
            acts += [("fire", 1.0 if fam == "handshake" else 0.3), ("gate", 0.7 if fam in ("gate", "handshake") else 0.2),
                     ("advance", 0.5)]
            if F["close"]:
                acts.append(("close", 1.0 if fam in ("handshake", "clean", "persistent") else 0.3))
            if fam in ("gate", "hostile", "handshake"):
                acts.append(("foreign", 1.5))
            if F["raw"]:
                acts.append(("raw", 1.5))
            if fam == "ids" and getattr(self, "_placed_c", 0) < 2:
                s_ = L.session(addr)
                pend = sorted(r.msgId for a_ in sorted(L.sess) for r in L.sess[a_].reqs
                              if r.pending and isinstance(r.msgId, int))
                if pend and rng.random() < 0.5:
                    self._placed_c = getattr(self, "_placed_c", 0) + 1
                    tgt = rng.choice(pend)
                    return {"op": "sim.set_id", "value": (tgt - 2) % 65535 + 1}
            k = _w(rng, acts)
            if k == "connack":
                rcv = 0
                if fam == "handshake":
                    # all 256 return codes are cycled through by the seed
                    rcv = _w(rng, [(0, 4), (rng.randint(1, 5), 2), (rng.randint(6, 255), 2), (cfg.get("seed", 0) % 256, 4)])
                elif rng.random() < 0.05:
                    rcv = rng.randint(1, 255)
                stp = {"op": "brk.connack", "addr": addr, "rc": rcv, "sp": rng.random() < 0.4}
                return self.cut_for(w, addr, stp)
            if k == "publish":
                return self.publish_step(addr)
            if k == "fire" and w.pending_timers():
                return {"op": "time.fire", "tie": rng.randint(0, 3)}
            if k == "gate":
                return self.gate_call(addr, "cur", w, L)
            if k == "advance":
                return {"op": "time.advance", "dt": rng.choice([0.25, 1, 3, 9.5, 10])}
            if k == "close":
                return {"op": "net.close", "addr": addr, "kind": rng.choice(["fin", "rst"]), "drop": rng.random() < 0.3}
            if k == "foreign":
                return self.foreign_packet(addr, w, "connecting")
            if k == "raw":
                return self.raw_step(addr, w, L)
            return {"op": "brk.connack", "addr": addr, "rc": 0}
        # ---- connected
        return self.connected_step(addr, w, L, wc, lc)

    def connected_step(self, addr, w, L, wc, lc):
        rng, cfg, fam = self.rng, self.cfg, self.fam
        F = cfg["faults"]
        prof = cfg["profile"]
        sess = w.broker.session(addr)
        need = sess.need
        s = L.session(addr)
        n_need = sum(len(v) for v in need.values())
        has_timers = bool(w.pending_timers())
        pend_in = len(wc.inb) - wc.in_delivered
        acts = []
        P, S = bool(prof & 2), bool(prof & 1)
        fr = cfg["fault_rate"]
        if pend_in:
            acts.append(("deliver", 8))
        if P:
            wt = {"publisher": 6, "window": 7, "qos2": 6, "silence": 3, "clean": 5, "persistent": 5, "ids": 6,
                  "wire": 6, "closing": 4}.get(fam, 2.5)
            if len(s.fifo) > 12:
                wt *= 0.2
            acts.append(("publish", wt))
        if S:
            acts.append(("subscribe", {"subreq": 5, "subscriber": 1.5, "silence": 2, "clean": 2, "persistent": 2,
                                       "ids": 2, "wire": 3}.get(fam, 1.2)))
            acts.append(("unsubscribe", {"subreq": 4, "silence": 2, "clean": 1.5, "persistent": 1.5, "ids": 2,
                                         "wire": 2}.get(fam, 0.8)))
            acts.append(("in_publish", {"subscriber": 7, "wire": 3, "closing": 2}.get(fam, 1.5)))
            if sess.tx_recd:
                acts.append(("in_pubrel", 5))
            if sess.tx_unrec or sess.tx_q1 or sess.tx_recd:
                acts.append(("in_repeat", 2.5 if fam == "subscriber" else 0.5))
            if sess.tx_rel or sess.tx_done:
                acts.append(("in_pubrel_again", 1.5 if fam == "subscriber" else 0.3))
            acts.append(("in_pubrel_unknown", 0.6 if fam in ("subscriber", "hostile") else 0.1))
        if n_need:
            base = {"silence": 1.0, "window": 8, "qos2": 6, "ids": 3}.get(fam, 5)
            acts.append(("ack", base))
        if F["dup_ack"] and any(sess.answered.values()):
            acts.append(("ack_dup", 1.2))
        if F["foreign_ack"]:
            acts.append(("ack_foreign", 0.8))
        if has_timers:
            acts.append(("fire", {"silence": 8, "keepalive": 6, "qos2": 3, "closing": 3, "clean": 2,
                                  "persistent": 2, "ids": 2}.get(fam, 1.5)))
        acts.append(("advance", 0.6 if fam != "keepalive" else 2))
        if w.broker.pings.get(wc.idx, 0) > 0:
            acts.append(("pingresp", 6 if fam == "keepalive" else 3))
        acts.append(("pingresp_extra", 1.0 if fam in ("keepalive", "hostile") else 0.08))
        if cfg["window_changes"]:
            acts.append(("set_window", 1.5))
        if fam in ("silence", "general") or rng.random() < 0.02:
            acts.append(("set_timeout", 0.4))
            acts.append(("set_bw", 0.2))
        if F["close"]:
            base = {"clean": 4, "persistent": 4, "qos2": 2.5, "closing": 1, "handshake": 2, "subreq": 2,
                    "subscriber": 2}.get(fam, 1)
            infl = 1 + (2 if (n_need or s.fifo or sess.tx_recd or sess.tx_unrec) else 0)
            acts.append(("close", 40 * fr * base * infl / 3.0))
        acts.append(("disconnect", {"closing": 2.0, "clean": 0.6, "persistent": 0.6}.get(fam, 0.25)))
        acts.append(("gate", 2.0 if fam == "gate" else (0.5 if fam == "keepalive" else 0.15)))
        if fam in ("gate", "hostile", "handshake"):
            acts.append(("foreign", 2.0 if fam == "gate" else 0.7))
        if fam == "args" or rng.random() < 0.03:
            acts.append(("bad", 4 if fam == "args" else 0.5))
            acts.append(("good_boundary", 3 if fam == "args" else 0.3))
        if F["raw"]:
            acts.append(("raw", 4 if fam == "hostile" else 0.5))
        if F["stall"]:
            acts.append(("stall", 0.4))
        if F["stale_handle"] and len(w.by_addr.get(addr, [])) > 1:
            acts.append(("stale", 0.5))
        if getattr(self, "_burst", 0) > 0 and P:
            self._burst -= 1
            return self.publish_step(addr, qos=0 if rng.random() < 0.9 else rng.randint(1, 2))
        if F.get("burst") and P and s.fifo and rng.random() < (0.09 if fam == "window" else 0.04):
            # a long run of publishes while earlier ones are still held back
            self._burst = rng.choice([8, 17, 33, 40])
        if F.get("alias") and w.payload_refs and rng.random() < 0.08:
            return {"op": "sim.mutate", "i": rng.randint(0, 2), "n": rng.choice([1, 5, 30])}
        if fam == "ids" and getattr(self, "_placed", 0) < 3 and any(r.pending for r in s.reqs) \
                and rng.random() < (0.3 if not getattr(self, "_placed", 0) else 0.08):
            self._placed = getattr(self, "_placed", 0) + 1
            pend = sorted(r.msgId for a_ in sorted(L.sess) for r in L.sess[a_].reqs
                          if r.pending and isinstance(r.msgId, int))
            held = sorted(r.msgId for a_ in sorted(L.sess) for r in L.sess[a_].reqs
                          if r.pending and isinstance(r.msgId, int) and not r.tx)
            rel = sorted(r.msgId for a_ in sorted(L.sess) for r in L.sess[a_].reqs
                         if r.pending and isinstance(r.msgId, int) and r.rel_tx)
            r_ = rng.random()
            if held and r_ < 0.4:
                # ... an identifier that so far only sits in a queue of held-back messages
                pend = held
            elif rel and r_ < 0.7:
                # ... or one whose PUBLISH is done with and whose PUBREL awaits PUBCOMP
                pend = rel
            if pend and rng.random() < 0.5:
                # the counter as it stands one full cycle later, right before an identifier still in use
                tgt = rng.choice(pend)
                return {"op": "sim.set_id", "value": (tgt - 2) % 65535 + 1 if rng.random() < 0.7 else (tgt - 3) % 65535 + 1}
            return {"op": "sim.set_id", "value": rng.choice([65530, 65531, 65532, 65533, 65534, 65535])}
        k = _w(rng, acts)
        if k == "deliver":
            return {"op": "net.deliver", "addr": addr, "n": _w(rng, [(None, 5), (1, 2), (rng.randint(1, 8), 3)])}
        if k == "publish":
            return self.publish_step(addr)
        if k == "subscribe":
            return self.subscribe_step(addr)
        if k == "unsubscribe":
            return self.unsubscribe_step(addr)
        if k == "in_publish":
            return self.cut_for(w, addr, self.inbound_publish(addr, w))
        if k == "in_pubrel":
            return self.cut_for(w, addr, {"op": "brk.pubrel", "addr": addr, "ref": rng.randint(0, 3), "dup": rng.random() < 0.2 and cfg["version"] == 3})
        if k == "in_repeat":
            return {"op": "brk.publish", "addr": addr, "mode": "repeat", "q": 2 if (sess.tx_unrec or sess.tx_recd) else 1,
                    "ref": rng.randint(0, 3)}
        if k == "in_pubrel_again":
            return {"op": "brk.pubrel", "addr": addr, "mode": "again", "ref": rng.randint(0, 3)}
        if k == "in_pubrel_unknown":
            return {"op": "brk.pubrel", "addr": addr, "mode": "unknown", "id": rng.choice([9, 77, 4000, 65535])}
        if k == "ack":
            kinds = [kk for kk, v in need.items() if v]
            kind = rng.choice(kinds)
            stp = {"op": "brk.ack", "addr": addr, "kind": kind, "ref": _w(rng, [(0, 5), (1, 2), (rng.randint(0, 15), 2)])}
            if kind == "SUBACK":
                ids = list(need["SUBACK"])
                n = need["SUBACK"][ids[stp["ref"] % len(ids)]]
                n = n if isinstance(n, int) and not isinstance(n, bool) else 1
                if rng.random() < 0.15:
                    n = rng.randint(1, 5)
                stp["granted"] = [rng.choice([0, 1, 2, 0x80]) for _ in range(n)]
            return self.cut_for(w, addr, stp)
        if k == "ack_dup":
            kinds = [kk for kk, v in sess.answered.items() if v]
            kind = rng.choice(kinds)
            stp = {"op": "brk.ack", "addr": addr, "kind": kind, "mode": "again", "ref": rng.randint(0, 3)}
            if kind == "SUBACK":
                stp["granted"] = [rng.choice([0, 1, 2, 0x80])]
            return stp
        if k == "ack_foreign":
            kind = rng.choice(["PUBACK", "PUBREC", "PUBCOMP", "SUBACK", "UNSUBACK"])
            base = w.factory.id if isinstance(getattr(w.factory, "id", None), int) else 0
            mid = rng.choice([base + 1, base + 2, max(1, base - 30), 40000, 65535, 1, max(1, base)])
            mid = min(max(1, mid), 65535)
            stp = {"op": "brk.ack", "addr": addr, "kind": kind, "mode": "foreign", "id": mid}
            if kind == "SUBACK":
                stp["granted"] = [rng.choice([0, 1, 2, 0x80])]
            return stp
        if k == "fire":
            return {"op": "time.fire", "tie": _w(rng, [(0, 6), (1, 2), (rng.randint(0, 5), 1)])}
        if k == "advance":
            ka = cfg["keepalive"] or 4
            return {"op": "time.advance", "dt": rng.choice([0.25, 0.5, 1, 2, ka / 2.0, ka, 4, 16])}
        if k == "pingresp":
            if rng.random() < 0.2:
                # the answer shares a TCP segment with a packet whose remaining length needs 2+ bytes
                self._queue = [{"op": "brk.pingresp", "addr": addr}]
                return {"op": "brk.publish", "addr": addr, "qos": 0, "topic": gen_topic(rng),
                        "payload": {"$": "barep", "s": "k", "n": rng.choice([128, 130, 200, 16384])}, "dl": False}
            return {"op": "brk.pingresp", "addr": addr}
        if k == "pingresp_extra":
            return {"op": "brk.pingresp", "addr": addr, "mode": "extra"}
        if k == "set_window":
            return {"op": "app.call", "addr": addr, "m": "setWindowSize", "a": [_w(rng, [(1, 3), (2, 2), (rng.randint(1, 16), 3)])]}
        if k == "set_timeout":
            return {"op": "app.call", "addr": addr, "m": "setTimeout", "a": [rng.choice([1, 2, 4, 7, 100, 1024])]}
        if k == "set_bw":
            return {"op": "app.call", "addr": addr, "m": "setBandwith", "a": [rng.choice([1, 10, 1000, 10000]), rng.choice([1, 2, 3, 0.5, 1.5])]}
        if k == "close":
            return {"op": "net.close", "addr": addr, "kind": rng.choice(["fin", "rst"]), "drop": rng.random() < 0.3}
        if k == "disconnect":
            return {"op": "app.call", "addr": addr, "m": "disconnect"}
        if k == "gate":
            return self.gate_call(addr, "cur", w, L)
        if k == "stale":
            return self.gate_call(addr, "old", w, L)
        if k == "foreign":
            return self.foreign_packet(addr, w, "connected")
        if k == "bad":
            return self.bad_call(addr)
        if k == "good_boundary":
            return self.good_boundary(addr)
        if k == "raw":
            return self.raw_step(addr, w, L)
        if k == "stall":
            return {"op": "net.stall", "dt": rng.choice([0.5, 3, 30, 300])}
        return {"op": "time.advance", "dt": 0.5}

    # -------------------------------------------------------------- C14 calls

    def gate_call(self, addr, h, w, L):
        rng = self.rng
        m = rng.choice(["connect", "publish", "subscribe", "unsubscribe", "disconnect", "publish", "subscribe"])
        if m == "connect":
            # I3: never connect() on a protocol whose transport has reported the loss
            lst = w.by_addr.get(addr, [])
            tgt = lst[-1] if h == "cur" else (lst[-2] if len(lst) > 1 else None)
            if tgt is None or tgt.lost:
                m = "publish"
            else:
                st = {"op": "app.call", "addr": addr, "m": "connect", "a": ["again"],
                      "k": {"cleanStart": rng.random() < 0.5,
                            "version": {"$": "v31"} if self.cfg["version"] == 3 else {"$": "v311"}}, "h": h}
                return st
        if m == "publish":
            return self.publish_step(addr, h=h)
        if m == "subscribe":
            return self.subscribe_step(addr, h=h)
        if m == "unsubscribe":
            return self.unsubscribe_step(addr, h=h)
        return {"op": "app.call", "addr": addr, "m": "disconnect", "h": h}

    def foreign_packet(self, addr, w, state):
        """A well-formed broker packet that does not belong to the state/profile."""
        rng = self.rng
        prof = self.cfg["profile"]
        ver = self.cfg["version"]
        mid = rng.choice([1, 2, 3, 500])
        cands = []
        if state == "connecting":
            cands = ["PUBLISH", "PUBACK", "PUBREC", "PUBREL", "PUBCOMP", "SUBACK", "UNSUBACK", "PINGRESP"]
        else:
            cands = ["CONNACK"]
            if not prof & 1:
                cands += ["PUBLISH", "PUBREL", "SUBACK", "UNSUBACK"]
            if not prof & 2:
                cands += ["PUBACK", "PUBREC", "PUBCOMP"]
        t = rng.choice(cands)
        if t == "PUBLISH":
            q = rng.randint(0, 2)
            p = {"type": t, "qos": q, "topic": "f/x", "payload": b"zz", "id": mid if q else None}
        elif t == "SUBACK":
            p = {"type": t, "id": mid, "granted": [0]}
        elif t == "CONNACK":
            p = {"type": t, "rc": rng.choice([0, 0, 1, 5]), "session_present": False}
        elif t == "PINGRESP":
            p = {"type": t}
        else:
            p = {"type": t, "id": mid}
        raw = rc.encode(p, ver)
        return {"op": "brk.raw", "addr": addr, "hex": raw.hex(), "note": "foreign " + t}

    # -------------------------------------------------------------- C20 calls

    def bad_call(self, addr):
        rng = self.rng
        long_s = {"$": "rep", "s": "L", "n": 65536}
        long3 = {"$": "rep", "s": "€", "n": 21846}   # 65538 bytes, 21846 chars
        choice = rng.choice(["win", "win", "timeout", "bw", "pub_qos", "pub_payload", "pub_topic", "sub_qos", "sub_type",
                             "unsub_type", "sub_qos_list", "sub_enc", "unsub_enc"])
        if choice == "win":
            return {"op": "app.call", "addr": addr, "m": "setWindowSize", "a": [rng.choice([0, 17, -1, 100])], "tag": "bad"}
        if choice == "timeout":
            return {"op": "app.call", "addr": addr, "m": "setTimeout", "a": [rng.choice([0, 1025, -5, 0.5])], "tag": "bad"}
        if choice == "bw":
            a = rng.choice([[0, 2], [-1, 2], [100, 0], [100, -2]])
            return {"op": "app.call", "addr": addr, "m": "setBandwith", "a": a, "tag": "bad"}
        if choice == "pub_qos":
            return {"op": "app.call", "addr": addr, "m": "publish", "tag": "bad",
                    "k": {"topic": "t", "message": "m", "qos": rng.choice([3, -1, 4, 255, 2.5, -0.5, 1.5, "1", "2"])}}
        if choice == "pub_payload":
            return {"op": "app.call", "addr": addr, "m": "publish", "tag": "bad",
                    "k": {"topic": "t", "message": rng.choice([5, 1.5, {"$": "none"}, {"$": "obj"}, ["l"], {"$": "bytes", "v": "00"}, True]),
                          "qos": rng.randint(0, 2), "retain": rng.random() < 0.5}}
        if choice == "pub_topic":
            return {"op": "app.call", "addr": addr, "m": "publish", "tag": "bad",
                    "k": {"topic": rng.choice([long_s, long3]), "message": "m", "qos": rng.randint(0, 2)}}
        if choice == "sub_qos":
            return {"op": "app.call", "addr": addr, "m": "subscribe", "a": ["t/#", rng.choice([3, -1, 9])], "tag": "bad"}
        if choice == "sub_qos_list":
            return {"op": "app.call", "addr": addr, "m": "subscribe", "tag": "bad",
                    "a": [[{"$": "tuple", "v": ["a", 1]}, {"$": "tuple", "v": ["b", rng.choice([3, -1])]}]]}
        if choice == "sub_enc":
            # well-formed container, but a topic that only the encoder can refuse
            bad_t = rng.choice([5, long_s, long3, {"$": "none"}])
            lst = [{"$": "tuple", "v": ["a", 1]}, {"$": "tuple", "v": [bad_t, rng.randint(0, 2)]}]
            rng.shuffle(lst)
            return {"op": "app.call", "addr": addr, "m": "subscribe", "tag": "bad", "a": [lst[:rng.choice([1, 2])] if lst[0]["v"][0] != "a" else lst]}
        if choice == "unsub_enc":
            return {"op": "app.call", "addr": addr, "m": "unsubscribe", "tag": "bad",
                    "a": [rng.choice([["a", 5], [long_s], ["x", long3], [{"$": "none"}]])]}
        if choice == "sub_type":
            return {"op": "app.call", "addr": addr, "m": "subscribe", "tag": "bad",
                    "a": [rng.choice([5, {"$": "none"}, {"$": "obj"}, 1.5, {"$": "bytes", "v": "61"}])]}
        return {"op": "app.call", "addr": addr, "m": "unsubscribe", "tag": "bad",
                "a": [rng.choice([5, {"$": "none"}, {"$": "obj"}, {"$": "tuple", "v": ["a", "b"]}, {"$": "bytes", "v": "61"}])]}

    def boundary_connect(self, addr):
        """connect() with arguments at the accepted end of each range (C20.B4, C02.W3)."""
        rng = self.rng
        ver = self.cfg["version"]
        vv = {"$": "v31"} if ver == 3 else {"$": "v311"}
        sess = self.cfg["session"]
        clean = True if sess == "clean" else (False if sess == "persistent" else rng.random() < 0.4)
        k = {"cleanStart": clean, "version": vv, "keepalive": rng.choice([0, 1, 65535, 65534])}
        cid = rng.choice(["", "c"]) if ver == 4 else "c"
        choice = rng.choice(["cid23", "will2", "will0", "bigwill", "user", "userpw", "bigcid", "emptypw", "utf8"])
        if choice == "cid23":
            cid = "x" * 23
        elif choice == "will2":
            k.update({"willTopic": "w/t", "willMessage": "", "willQoS": 2, "willRetain": True})
        elif choice == "will0":
            k.update({"willTopic": "w", "willMessage": "m", "willQoS": 0, "willRetain": False})
        elif choice == "bigwill":
            k.update({"willTopic": {"$": "rep", "s": "t", "n": 65535}, "willMessage": {"$": "rep", "s": "€", "n": 21845}, "willQoS": 1})
        elif choice == "user":
            k["username"] = {"$": "rep", "s": "u", "n": rng.choice([1, 127, 128, 65535])}
        elif choice == "userpw":
            k["username"] = "u"
            k["password"] = {"$": "rep", "s": "é", "n": rng.choice([1, 64, 32767])}
        elif choice == "bigcid" and ver == 4:
            cid = {"$": "rep", "s": "i", "n": rng.choice([24, 128, 65535])}
        elif choice == "emptypw":
            k["username"] = ""
            k["password"] = ""
        else:
            cid = "ñ€\U0001F600"[:3] if ver == 4 else "ñ€"
            k["username"] = "\U0001F600/€"
        return {"op": "app.call", "addr": addr, "m": "connect", "a": [cid], "k": k}

    def bad_connect(self, addr):
        """connect() with one argument the statement of C20 names as invalid."""
        rng = self.rng
        ver = self.cfg["version"]
        vv = {"$": "v31"} if ver == 3 else {"$": "v311"}
        k = {"cleanStart": rng.random() < 0.5, "version": vv, "keepalive": rng.choice([0, 5, 60])}
        cid = "bad"
        long_s = {"$": "rep", "s": "L", "n": 65536}
        choice = rng.choice(["willqos", "keepalive", "cid31", "version", "will_topic_only", "will_msg_only", "pw_no_user",
                             "long_cid", "long_user", "long_pw", "long_willtopic", "long_willmsg"])
        if choice == "willqos":
            k.update({"willTopic": "w", "willMessage": "m", "willQoS": rng.choice([3, -1, 4])})
        elif choice == "keepalive":
            k["keepalive"] = rng.choice([65536, -1, 100000])
        elif choice == "cid31":
            k["version"] = {"$": "v31"}
            cid = "x" * rng.choice([24, 30, 100])
        elif choice == "version":
            k["version"] = rng.choice([{"$": "ver", "level": 5, "tag": "MQTT"}, {"$": "ver", "level": 4, "tag": "MQTX"},
                                       {"$": "ver", "level": 2, "tag": "MQIsdp"}])
        elif choice == "will_topic_only":
            k["willTopic"] = "w"
        elif choice == "will_msg_only":
            k["willMessage"] = "m"
        elif choice == "pw_no_user":
            k["password"] = "secret"
        elif choice == "long_cid":
            cid = long_s
            k["version"] = {"$": "v311"}
        elif choice == "long_user":
            k["username"] = long_s
        elif choice == "long_pw":
            k["username"] = "u"
            k["password"] = long_s
        elif choice == "long_willtopic":
            k.update({"willTopic": long_s, "willMessage": "m"})
        else:
            k.update({"willTopic": "w", "willMessage": long_s})
        return {"op": "app.call", "addr": addr, "m": "connect", "a": [cid], "k": k, "tag": "bad"}

    def good_boundary(self, addr):
        rng = self.rng
        s65535 = {"$": "rep", "s": "M", "n": 65535}
        choice = rng.choice(["win", "timeout", "bw", "pub_topic", "pub_q"])
        if choice == "win":
            return {"op": "app.call", "addr": addr, "m": "setWindowSize", "a": [rng.choice([1, 16, 2, 15])]}
        if choice == "timeout":
            return {"op": "app.call", "addr": addr, "m": "setTimeout", "a": [rng.choice([1, 1024, 2, 1023])]}
        if choice == "bw":
            return {"op": "app.call", "addr": addr, "m": "setBandwith", "a": [rng.choice([1, 0.001, 1e9]), rng.choice([1, 2, 1.01])]}
        if choice == "pub_topic" and self.cfg["profile"] & 2:
            return {"op": "app.call", "addr": addr, "m": "publish", "k": {"topic": s65535, "message": "m", "qos": rng.randint(0, 2)}}
        if self.cfg["profile"] & 2:
            return {"op": "app.call", "addr": addr, "m": "publish", "k": {"topic": "t", "message": "", "qos": rng.choice([0, 2])}}
        return {"op": "app.call", "addr": addr, "m": "setWindowSize", "a": [16]}

    # ------------------------------------------------------------- C16 bytes

    def raw_step(self, addr, w, L):
        rng = self.rng
        ver = self.cfg["version"]
        kind = _w(rng, [("mutate", 5), ("truncate", 2), ("extend", 2), ("firstbyte", 3), ("random", 2), ("badutf8", 1.5),
                        ("reserved", 1.5), ("shortpub", 2), ("longvarint", 0.5), ("qos3", 1.5), ("relfor", 1.0)])
        sess = w.broker.session(addr)
        inuse = []
        for kk in ("PUBACK", "PUBREC", "PUBCOMP", "SUBACK", "UNSUBACK"):
            inuse += list(sess.need[kk])[:2]
        mid = rng.choice([1, 2, 3] + inuse + inuse)
        valid = [
            {"type": "CONNACK", "rc": 0, "session_present": False},
            {"type": "PUBLISH", "qos": 0, "topic": "a/b", "payload": b"xy"},
            {"type": "PUBLISH", "qos": 1, "topic": "a/b", "payload": b"xy", "id": 5},
            {"type": "PUBLISH", "qos": 2, "topic": "a/b", "payload": b"xy", "id": 6},
            {"type": "PUBACK", "id": mid}, {"type": "PUBREC", "id": mid}, {"type": "PUBREL", "id": 6},
            {"type": "PUBCOMP", "id": mid}, {"type": "SUBACK", "id": mid, "granted": [0, 1]},
            {"type": "UNSUBACK", "id": mid}, {"type": "PINGRESP"},
        ]
        base = bytearray(rc.encode(rng.choice(valid), ver))
        if kind == "mutate":
            i = rng.randrange(len(base))
            base[i] = rng.choice([0, 0xFF, base[i] ^ (1 << rng.randrange(8)), rng.randrange(256)])
            raw = bytes(base)
        elif kind == "truncate":
            # shorten the body but keep the frame self-consistent (fix remaining length)
            body_at = 2
            body = base[body_at:]
            cut = rng.randint(0, max(0, len(body) - 1))
            raw = rc.frame(base[0], body[:cut])
        elif kind == "extend":
            raw = rc.frame(base[0], bytes(base[2:]) + bytes(rng.randrange(256) for _ in range(rng.randint(1, 4))))
        elif kind == "firstbyte":
            fb = rng.randrange(256)
            body = bytes(rng.randrange(256) for _ in range(rng.choice([0, 1, 2, 3, 4])))
            raw = rc.frame(fb, body)
        elif kind == "random":
            raw = bytes(rng.randrange(256) for _ in range(rng.randint(1, 12)))
        elif kind == "badutf8":
            bad = rng.choice([b"\xff\xfe", b"\xc0\xaf", b"\xed\xa0\x80", b"\xe2\x82", b"a\x80b"])
            q = rng.randint(0, 2)
            body = bytes((0, len(bad))) + bad + (b"\x00\x09" if q else b"") + b"pl"
            raw = rc.frame(0x30 | (q << 1), body)
        elif kind == "reserved":
            raw = rng.choice([bytes([0x20, 2, 0, rng.randint(6, 255)]), bytes([0x20, 2, rng.randint(2, 255), 0]),
                              bytes([0x00, 0]), bytes([0xF0, 0]), bytes([0x36, 5, 0, 1, 0x61, 0, 1]),
                              bytes([0x10, 0]), bytes([0x80, 2, 0, 1]), bytes([0xE0, 0]), bytes([0xC0, 0])])
        elif kind == "qos3":
            # PUBLISH with both QoS bits set (reserved), optionally followed by a PUBREL for its id
            mid3 = rng.choice([1, 6, 9, 77, 4000, 65535])
            self._last_bad_id = mid3
            raw = rc.frame(0x36 | (8 if rng.random() < 0.3 else 0) | (1 if rng.random() < 0.3 else 0),
                           bytes((0, 3)) + b"q/3" + bytes((mid3 >> 8, mid3 & 0xFF)) + b"bogus")
            if rng.random() < 0.4:
                raw += rc.encode({"type": "PUBREL", "id": mid3}, ver)
        elif kind == "relfor":
            # a well-formed PUBREL for the identifier of an earlier malformed PUBLISH
            raw = rc.encode({"type": "PUBREL", "id": getattr(self, "_last_bad_id", 6)}, ver)
        elif kind == "shortpub":
            # PUBLISH whose topic length overruns the packet
            q = rng.randint(0, 2)
            raw = rc.frame(0x30 | (q << 1), bytes((0, rng.choice([5, 9, 200]))) + b"ab")
        else:
            raw = bytes([0x30, 0xFF, 0xFF, 0xFF, 0xFF, 0x01, 0, 1, 0x61])
        return {"op": "brk.raw", "addr": addr, "hex": raw.hex(), "note": kind}
