"""Rules about the byte stream itself: C02 (bytes are what the specification
prescribes), C18 (each connection's output is a well-formed client stream led
by CONNECT) and the on-the-wire half of C17 (identifier range)."""
from sim import refcodec as rc


class Rule(object):
    def bind(self, ledger):
        self.L = ledger

    def after(self, d):
        pass

    def finish(self):
        pass


def _ver_of(v):
    if isinstance(v, tuple) and len(v) == 3 and v[0] == "ver":
        return v[1], v[2]
    return None, None


def _utf8(x):
    if isinstance(x, str):
        return x.encode("utf-8")
    if isinstance(x, (bytes, bytearray)):
        return bytes(x)
    return None


class WireRules(Rule):
    """C02 W1-W4, C18 O1-O5, C17 I1 (wire)."""

    def after(self, d):
        L = self.L
        for it in d.order:
            if it[0] == "WERR":
                L.violate("C18", "O1", "framing", "output stream of conn %d cannot be framed: %s" % (it[1], it[2]))
                L.violate("C02", "W1", "framing", "output stream of conn %d cannot be framed: %s" % (it[1], it[2]))
        for (ci, data, phase) in d.raw_writes:
            c = L.conns[ci]
            if phase == "lost":
                L.probe("write_after_lost")
                L.violate("C18", "O5", "write-after-lost:%s" % (rc.peek_type(data) if data else "empty"),
                          "%d bytes written on conn %d after its loss was reported (dispatch %s)" % (len(data), ci, d.kind))
                L.violate("C13", "T4", "write-after-lost:%s" % (rc.peek_type(data) if data else "empty"),
                          "%d bytes written on conn %d after its loss was reported (dispatch %s)" % (len(data), ci, d.kind))
            if c.connect_called_seq is None and not any(a.kind == "connect" for a in d.apis):
                L.violate("C18", "O2", "write-before-connect", "bytes written on conn %d before connect()" % ci)
        for op in d.writes:
            self._one(d, op)
        self._inbound_w4(d)

    # -------------------------------------------------------------- per packet

    def _one(self, d, op):
        L = self.L
        c = L.conns[op.ci]
        t = op.type
        if op.err is not None:
            why = op.err.why
            key = "%s:%s" % (t, why.split(" on ")[0] if " on " in why else why)
            L.violate("C02", "W1", key, "client wrote %s: %s (bytes %s)" % (t, why, op.raw[:24].hex()))
            if "broker-only" in why:
                L.violate("C18", "O3", t, "broker-only packet type %s written by the client" % t)
            else:
                L.violate("C18", "O1", key, "client wrote malformed %s: %s (bytes %s)" % (t, why, op.raw[:24].hex()))
        p = op.pkt
        if p is None:
            return
        if op.err is None:
            ver = rc.V31 if (t == "CONNECT" and p.get("level") == 3) else c.version
            q = dict(p)
            q.pop("flags", None)
            try:
                again = rc.encode(q, ver)
            except Exception as e:   # pragma: no cover
                again = None
            if again != op.raw:
                L.violate("C02", "W2", t, "%s bytes differ from the reference encoding of their own fields: %s vs %s"
                          % (t, op.raw[:32].hex(), (again or b"")[:32].hex()))
        # stream-level rules (C18)
        if op.n == 0 and t != "CONNECT":
            L.violate("C18", "O2", "first-not-CONNECT:%s" % t, "first packet on conn %d is %s" % (c.ci, t))
        if t == "CONNECT" and op.n > 0:
            prev_ok = False
            # tolerated only after a refusing CONNACK (I2)
            for rq in c.connects[:-1]:
                for f in rq.fires:
                    if not f[1] and f[2] and f[2][0] == "MQTTStateError":
                        prev_ok = True
            if not prev_ok:
                L.violate("C18", "O2", "second-CONNECT", "a second CONNECT was written on conn %d" % c.ci)
        dn = getattr(c, "disconnect_n", None)
        if dn is not None and op.n > dn:
            L.probe("write_after_disconnect")
            L.violate("C18", "O4", "after-DISCONNECT:%s:%s" % (t, d.kind),
                      "%s written after DISCONNECT on conn %d (dispatch %s, phase %s)" % (t, c.ci, d.kind, op.phase))
        if t == "DISCONNECT":
            in_disc = any(a.kind == "disconnect" for a in d.apis)
            if not in_disc:
                L.violate("C18", "O4", "DISCONNECT-outside-disconnect()", "DISCONNECT written in a %s dispatch" % d.kind)
            elif not any(x[0] == c.ci for x in d.xcalls):
                L.violate("C18", "O4", "DISCONNECT-without-close", "disconnect() wrote DISCONNECT but did not ask the transport to close")
        # identifier range on the wire (C17 I1)
        if t in ("PUBLISH", "PUBREL", "SUBSCRIBE", "UNSUBSCRIBE"):
            mid = p.get("id")
            if not (t == "PUBLISH" and p.get("qos") == 0):
                if not (isinstance(mid, int) and 1 <= mid <= 65535):
                    L.violate("C17", "I1", "wire:%s" % t, "%s carries identifier %r" % (t, mid))
        # W3: decoded fields equal what was requested
        if op.err is None:
            self._w3(d, op, c, p, t)

    def _w3(self, d, op, c, p, t):
        L = self.L
        rq = op.req
        if t == "CONNECT":
            if rq is None or rq.args is None:
                return
            a = rq.args
            lvl, tag = _ver_of(a.get("version"))
            want = {
                "level": lvl, "proto_name": tag, "clean": bool(a.get("cleanStart")),
                "keepalive": a.get("keepalive"), "client_id": a.get("clientId"),
                "username": a.get("username"), "password": _utf8(a.get("password")) if a.get("password") is not None else None,
            }
            if a.get("willTopic") is not None and a.get("willMessage") is not None:
                want.update({"will_topic": a["willTopic"], "will_message": _utf8(a["willMessage"]),
                             "will_qos": a.get("willQoS"), "will_retain": bool(a.get("willRetain"))})
            else:
                want.update({"will_topic": None, "will_message": None, "will_qos": 0, "will_retain": False})
            for k, v in want.items():
                if p.get(k) != v:
                    L.violate("C02", "W3", "CONNECT:%s" % k, "CONNECT field %s is %r on the wire, requested %r"
                              % (k, _short(p.get(k)), _short(v)))
        elif t == "PUBLISH":
            if rq is None or rq.kind != "publish":
                return
            if p["topic"] != rq.topic or p["payload"] != rq.payload or p["qos"] != rq.qos or p["retain"] != rq.retain:
                L.violate("C02", "W3", "PUBLISH:content", "PUBLISH on the wire differs from the request rid=%d" % rq.rid)
            if rq.qos and p.get("id") != rq.msgId:
                L.violate("C05", "P5", "wire-id", "PUBLISH id %r != Deferred.msgId %r" % (p.get("id"), rq.msgId))
        elif t == "SUBSCRIBE":
            if rq is None or rq.kind != "subscribe":
                return
            if [tuple(x) for x in p["topics"]] != [tuple(x) for x in rq.topics]:
                L.violate("C02", "W3", "SUBSCRIBE:topics", "SUBSCRIBE names %r, requested %r" % (_short(p["topics"]), _short(rq.topics)))
                L.violate("C07", "S1", "SUBSCRIBE:topics", "SUBSCRIBE names %r, requested %r" % (_short(p["topics"]), _short(rq.topics)))
        elif t == "UNSUBSCRIBE":
            if rq is None or rq.kind != "unsubscribe":
                return
            if list(p["topics"]) != list(rq.topics):
                L.violate("C02", "W3", "UNSUBSCRIBE:topics", "UNSUBSCRIBE names %r, requested %r" % (_short(p["topics"]), _short(rq.topics)))
                L.violate("C07", "S1", "UNSUBSCRIBE:topics", "UNSUBSCRIBE names %r, requested %r" % (_short(p["topics"]), _short(rq.topics)))

    # ------------------------------------------------- W4: what the app sees

    def _inbound_w4(self, d):
        L = self.L
        if d.kind != "data" or d.desync or d.aborted or (d.coarse and len(d.frame_fx) > 1):
            return
        for fx in d.frame_fx:
            tag = fx["tag"]
            p = fx["fr"].pkt
            if tag == "connack-ok":
                rq = fx["req"]
                if rq is not None:
                    got = [f for f in rq.fires if f[0] == d.seq and f[1]]
                    if got and got[0][2] != p["session_present"]:
                        L.violate("C02", "W4", "CONNACK:session", "connect() result %r, CONNACK session-present %r"
                                  % (got[0][2], p["session_present"]))
            elif tag == "suback-done":
                rq = fx["req"]
                want = tuple((g & 0x7F, bool(g & 0x80)) for g in p["granted"])
                got = [f for f in rq.fires if f[0] == d.seq and f[1]]
                if got and tuple(tuple(x) for x in got[0][2]) != want:
                    L.violate("C02", "W4", "SUBACK:granted", "subscribe() result %r, SUBACK granted %r" % (got[0][2], want))
                    L.violate("C07", "S2", "SUBACK:granted", "subscribe() result %r, SUBACK granted %r" % (got[0][2], want))
            elif tag == "unsuback-done":
                rq = fx["req"]
                got = [f for f in rq.fires if f[0] == d.seq and f[1]]
                if got and got[0][2] != p["id"]:
                    L.violate("C02", "W4", "UNSUBACK:id", "unsubscribe() result %r, UNSUBACK id %r" % (got[0][2], p["id"]))
                    L.violate("C07", "S2", "UNSUBACK:id", "unsubscribe() result %r, UNSUBACK id %r" % (got[0][2], p["id"]))

    def finish(self):
        L = self.L
        for c in L.conns.values():
            if c.state == "lost" and c.outpos != len(c.outbuf):
                L.violate("C18", "O1", "incomplete-packet", "conn %d ended with %d bytes of an incomplete packet"
                          % (c.ci, len(c.outbuf) - c.outpos))


def _short(v):
    s = repr(v)
    return s if len(s) <= 80 else s[:77] + "..."
