"""Run one simulated history (generated from a seed, or replayed from a step
list), including the deterministic drain and long-silence phases."""
import random

from sim.world import World
from sim.engine import Ledger
from sim import gen as G


def all_rules(props=None):
    from sim.rules_wire import WireRules
    from sim.rules_pub import PublishRules, RetxRules
    from sim.rules_sub import InboundRules, SubRequestRules
    from sim.rules_sess import SessionRules
    from sim.rules_conn import ConnectRules, GateRules, KeepaliveRules, HostileRules, ArgRules, QuietRules
    table = [
        (WireRules, {"C02", "C18", "C17", "C13", "C05", "C07"}),
        (PublishRules, {"C05", "C09", "C10", "C13", "C11"}),
        (RetxRules, {"C08", "C13", "C12", "C02"}),
        (InboundRules, {"C06", "C02"}),
        (SubRequestRules, {"C07"}),
        (SessionRules, {"C11", "C12", "C04"}),
        (ConnectRules, {"C04", "C05", "C07", "C11", "C12"}),
        (GateRules, {"C14", "C04", "C18"}),
        (KeepaliveRules, {"C15"}),
        (HostileRules, {"C16"}),
        (ArgRules, {"C20", "C02"}),
        (QuietRules, {"C13"}),
    ]
    if props is None:
        return [cls() for cls, _ in table]
    want = set(props)
    return [cls() for cls, ps in table if ps & want]


class Result(object):
    def __init__(self):
        self.violations = []
        self.steps = []
        self.cfg = None
        self.seed = None
        self.digest = None
        self.ledger = None
        self.world = None
        self.error = None


MAX_DISPATCH = 50000


def _exec(ns, cfg, steps_iter, props, record, want_drain=True):
    w = World(ns, cfg)
    L = Ledger(w, all_rules(props), props)
    w.observer = L.observe
    for st in steps_iter(w, L):
        if st is None:
            break
        record.append(st)
        op = st["op"]
        if op == "drain":
            drain(w, L)
        elif op == "silence":
            silence(w, L)
        else:
            w.run_step(st)
        if w.seq > MAX_DISPATCH:
            break
    for r in L.rules:
        r.finish()
    return w, L


def run_seed(ns, seed, family, props=None, stop_early=True, override=None):
    rng = random.Random(seed)
    cfg = G.make_config(rng, family)
    cfg["seed"] = seed
    if override:
        for k, v in override.items():
            if isinstance(v, dict) and isinstance(cfg.get(k), dict):
                cfg[k].update(v)
            else:
                cfg[k] = v
    g = G.Gen(rng, cfg)
    res = Result()
    res.seed = seed
    res.cfg = cfg

    def it(w, L):
        for i in range(cfg["length"]):
            if stop_early and L.violations:
                return
            yield g.next(w, L)
        if not (stop_early and L.violations):
            yield {"op": "drain"}
            yield {"op": "silence"}
    w, L = _exec(ns, cfg, it, props, res.steps)
    res.world, res.ledger = w, L
    res.violations = list(L.violations)
    res.digest = w.digest()
    return res


def run_steps(ns, cfg, steps, props=None):
    res = Result()
    res.cfg = cfg

    def it(w, L):
        for st in steps:
            yield st
    w, L = _exec(ns, cfg, it, props, res.steps)
    res.world, res.ledger = w, L
    res.violations = list(L.violations)
    res.digest = w.digest()
    return res


# ------------------------------------------------------------------ drain

def _pending(L, addr):
    s = L.session(addr)
    if s.fifo:
        return True
    for r in s.reqs:
        if r.pending and r.dead_after is None:
            return True
    for c in L.conns.values():
        if c.addr == addr:
            for r in c.connects:
                if r.pending:
                    return True
    return False


def drain(w, L):
    """Faults stop; the broker answers everything it is sent, correctly, once;
    the application reconnects (persistent) if requests survive a loss."""
    addrs = sorted(w.by_addr)
    budget = 60 + 6 * sum(1 for r in L.reqs.values() if r.pending)
    idle_rounds = 0
    for it in range(budget):
        progressed = False
        for addr in addrs:
            wc = w.by_addr[addr][-1]
            lc = L.conns.get(wc.idx)
            sess = w.broker.session(addr)
            if not wc.lost and wc.transport.phase.startswith("closing"):
                w.run_step({"op": "net.finish_close", "addr": addr})
                progressed = True
                continue
            if wc.lost:
                if _pending(L, addr):
                    w.run_step({"op": "app.build", "addr": addr})
                    progressed = True
                continue
            st = lc.state if lc is not None else "built"
            if wc.in_desync or wc.raw_injected or (lc is not None and getattr(lc, "had_malformed", False)):
                # garbage was fed into this connection: how the client framed it is not
                # knowable from outside; faults stop = this connection is replaced
                w.run_step({"op": "net.close", "addr": addr, "kind": "fin", "drop": True})
                progressed = True
                continue
            if st == "refused":
                w.run_step({"op": "net.close", "addr": addr, "kind": "fin"})
                progressed = True
                continue
            if st == "built":
                if _pending(L, addr):
                    from sim.rules_sess import _mode
                    mode = _mode(L, addr)
                    ver = {"$": "v31"} if w.cfg.get("version") == 3 else {"$": "v311"}
                    w.run_step({"op": "app.call", "addr": addr, "m": "connect", "a": ["drain"],
                                "k": {"cleanStart": bool(mode) if mode is not None else True, "keepalive": 0,
                                      "version": ver}})
                    progressed = True
                continue
            if st == "connecting":
                if w.broker.connects.get(wc.idx):
                    w.run_step({"op": "brk.connack", "addr": addr, "rc": 0})
                    progressed = True
                continue
            # connected
            if len(wc.inb) > wc.in_delivered:
                w.run_step({"op": "net.deliver", "addr": addr})
                progressed = True
                continue
            did = False
            for kind in ("PUBACK", "PUBREC", "PUBCOMP", "SUBACK", "UNSUBACK"):
                if sess.need[kind]:
                    w.run_step({"op": "brk.ack", "addr": addr, "kind": kind, "ref": 0})
                    did = True
                    break
            if not did and w.broker.pings.get(wc.idx, 0) > 0:
                w.run_step({"op": "brk.pingresp", "addr": addr})
                did = True
            if not did and sess.tx_recd:
                w.run_step({"op": "brk.pubrel", "addr": addr, "ref": 0})
                did = True
            progressed = progressed or did
        if not progressed:
            if not any(_pending(L, a) for a in addrs):
                break
            # something is pending but the broker has nothing to answer: let time
            # pass (a retransmission may be what is needed)
            idle_rounds += 1
            if idle_rounds <= 3 and w.pending_timers():
                w.run_step({"op": "time.fire", "tie": 0})
            elif idle_rounds <= 6:
                # still stuck: replace the connection; a persistent session re-sends what
                # is unacknowledged at the next CONNACK, a clean one fails it
                for addr in addrs:
                    if _pending(L, addr) and w.live(addr) is not None:
                        w.run_step({"op": "net.close", "addr": addr, "kind": "fin", "drop": True})
            else:
                break
    L.drained = True


def silence(w, L):
    """End every connection, then let every remaining timer run: nothing may be
    written for settled requests, no timer may remain."""
    for addr in sorted(w.by_addr):
        wc = w.by_addr[addr][-1]
        if wc.lost:
            continue
        lc = L.conns.get(wc.idx)
        if wc.transport.phase == "open":
            if lc is not None and lc.state == "connected":
                w.run_step({"op": "app.call", "addr": addr, "m": "disconnect"})
            else:
                w.run_step({"op": "net.close", "addr": addr, "kind": "fin", "drop": True})
        if not wc.lost:
            w.run_step({"op": "net.finish_close", "addr": addr})
    n = 0
    horizon = min(w.now + 1e7, 1.0e9)
    while w.pending_timers() and n < 300:
        if not w.run_step({"op": "time.fire", "tie": 0, "max_t": horizon}):
            break
        n += 1
    L.silenced = n < 300
