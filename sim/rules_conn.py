"""Connection-level rules: C04 (handshake / loss notification), C14 (state and
profile gating), C15 (keepalive), C16 (hostile input), C20 (argument
validation, the in-run half) and the timer half of C13 (T3, T5, T6)."""
from sim.rules_wire import Rule
from sim.rules_pub import _effects

EPS = 1e-6


def _overdue_before(L, t):
    """Is some live timer due at or before t (i.e. the reactor is behind)?"""
    for tm in L.alive.values():
        if tm["alive"] and tm["due"] <= t + EPS:
            return True
    return False


class ConnectRules(Rule):
    def after(self, d):
        L = self.L
        now = L.w.now
        # a second firing of a Deferred shows as AlreadyCalledError inside client code
        for (where, etype, emsg) in d.excs:
            if etype == "AlreadyCalledError":
                if d.kind == "timer" and d.fired is not None and d.fired["kind"] == "connect":
                    L.violate("C04", "H2", "fired-twice:timeout-after-CONNACK",
                              "the CONNACK timeout fired the connect() Deferred a second time")
                elif d.connack is not None:
                    L.violate("C04", "H2", "fired-twice:CONNACK", "a CONNACK fired the connect() Deferred a second time")
                elif d.kind == "data" and any(fx["fr"].type in ("PUBACK", "PUBREC", "PUBCOMP") for fx in d.frame_fx):
                    L.violate("C05", "P1", "fired-twice:%s" % d.frame_fx[0]["fr"].type, "a publish() Deferred was fired twice")
                elif d.kind == "data" and any(fx["fr"].type in ("SUBACK", "UNSUBACK") for fx in d.frame_fx):
                    L.violate("C07", "S2", "fired-twice:%s" % d.frame_fx[0]["fr"].type, "a subscribe()/unsubscribe() Deferred was fired twice")
                elif d.kind == "lost":
                    c = d.lost_conn
                    L.violate("C11" if (c is not None and c.clean) else "C12", "L1" if (c is not None and c.clean) else "M1",
                              "fired-twice:loss", "a Deferred was fired twice by the connection-loss handling")
        # H1
        for rq in d.apis:
            if rq.kind != "connect":
                continue
            if rq.valid and rq.allowed and rq.judged:
                n = sum(1 for op in d.writes if op.type == "CONNECT" and op.ci == rq.ci)
                if not rq.accepted:
                    why = rq.exc or (rq.refusal[0] if rq.refusal else rq.how)
                    L.violate("C04", "H1", "valid-connect-rejected:%s" % why, "valid connect() on an idle protocol rejected: %s" % why)
                elif n != 1:
                    L.violate("C04", "H1", "CONNECT-count:%d" % n, "connect() wrote %d CONNECT packets" % n)
                elif getattr(rq, "ret_state", "pending") != "pending":
                    L.violate("C04", "H2", "fired-in-connect()", "connect() Deferred fired before any CONNACK")
            if rq.accepted:
                tm = [L.timers[t] for t in d.plain if L.timers[t]["kind"] == "connect"]
                want = L.conns[rq.ci].keepalive or 10
                if len(tm) == 1 and abs((tm[0]["due"] - tm[0]["t0"]) - want) > EPS:
                    L.violate("C04", "H2", "timeout-value", "CONNACK timeout scheduled after %s s, expected %s"
                              % (tm[0]["due"] - tm[0]["t0"], want))
        # H2 at CONNACK
        for fx in (d.connacks if (not d.desync and not (d.coarse and len(d.frame_fx) > 1)) else ()):
            rq = fx["req"]
            p = fx["fr"].pkt
            rcv = p["rc"]
            cls = "rc0" if rcv == 0 else ("rc1-5" if rcv <= 5 else "rc>=6")
            f = [x for x in rq.fires if x[0] == d.seq] if rq is not None else []
            if rq is not None and rq.pending_before(d.seq):
                if not f:
                    L.violate("C04", "H2", "CONNACK-no-fire:%s%s" % (cls, (":" + d.excs[0][1]) if d.excs else ""),
                              "CONNACK rc=%d delivered but the connect() Deferred did not fire" % rcv)
                elif rcv == 0 and not f[0][1]:
                    L.violate("C04", "H2", "CONNACK-ok-failed", "CONNACK rc=0 but connect() failed with %r" % (f[0][2],))
                elif rcv != 0 and (f[0][1] or f[0][2][0] != "MQTTStateError"):
                    L.violate("C04", "H2", "CONNACK-refused-outcome:%s" % cls,
                              "CONNACK rc=%d but connect() outcome was %r" % (rcv, f[0],))
            if rcv != 0 and fx is d.connacks[-1] and not any(a.kind == "connect" and a.accepted and a.nested for a in d.apis):
                # (an errback may legitimately have called connect() again already)
                self._idle_check(d, d.conn, "refused")
        # connect Deferreds firing outside a CONNACK dispatch
        for (rid, ok, val) in d.fires:
            rq = L.reqs.get(rid)
            if rq is None or rq.kind != "connect" or not rq.accepted:
                continue
            if any(fx["req"] is rq for fx in d.connacks):
                continue
            c = L.conns[rq.ci]
            if ok:
                L.violate("C04", "H2", "success-without-CONNACK", "connect() succeeded in a dispatch that delivered no CONNACK")
            elif val[0] == "MQTTTimeoutError":
                dl = getattr(rq, "deadline", None)
                if d.kind == "timer" and dl is not None and d.t < dl - EPS and c.state != "lost":
                    L.violate("C04", "H2", "early-timeout", "connect() timed out at %.3f, deadline %.3f" % (d.t, dl))
                if d.kind == "timer" and c.state != "lost" and not any(x == (c.ci, "abort") for x in d.xcalls):
                    L.violate("C04", "H2", "timeout-without-abort", "CONNACK timeout did not abort the transport")
                if c.connack_seq is not None or c.state == "refused":
                    L.violate("C04", "H2", "timeout-after-CONNACK", "connect() timed out although a CONNACK had been delivered")
            else:
                if d.kind == "data" and any(fx["tag"] == "malformed" and fx["fr"].type == "CONNACK" for fx in d.frame_fx):
                    continue    # failing connect() on a malformed CONNACK is a legitimate reaction
                L.violate("C04", "H2", "unexpected-failure:%s" % val[0], "connect() failed with %s outside a CONNACK dispatch" % val[0])
        # missed timeout
        for c in L.conns.values():
            rq = c.cur_connect
            if rq is None or not rq.pending or c.connack_seq is not None or c.state == "refused":
                continue
            dl = getattr(rq, "deadline", None)
            if dl is not None and now > dl + EPS and not _overdue_before(L, dl):
                L.violate("C04", "H2", "no-timeout:%s" % c.state, "connect() still pending at %.3f, deadline was %.3f" % (now, dl))
        # H3 / H4
        if d.kind == "lost" and d.lost_conn is not None:
            self._idle_check(d, d.lost_conn, "lost")
            if any(x[1] == "onDisconnection" for x in d.cbs):
                L.violate("C04", "H4", "notified-inside-loss-dispatch", "onDisconnection called inside connectionLost")
        for (ci, name, args) in d.cbs:
            if name == "onDisconnection":
                c = L.conns.get(ci)
                if c is None:
                    continue
                if c.state != "lost":
                    L.violate("C04", "H4", "notified-without-loss", "onDisconnection called on a live connection")
                else:
                    got = args[0][1] if (args and isinstance(args[0], tuple) and args[0][0] == "failure") else None
                    if got != c.lost_reason:
                        L.violate("C04", "H4", "wrong-reason", "onDisconnection got %r, loss reason was %s" % (args, c.lost_reason))
                    if c.notify_calls > 1:
                        L.violate("C04", "H4", "notified-twice", "onDisconnection called %d times for one loss" % c.notify_calls)
                    if not c.notify_expected:
                        L.violate("C04", "H4", "notified-without-handler", "onDisconnection invoked though no handler was set at loss time")

    def _idle_check(self, d, c, why):
        L = self.L
        p = L.w.conns[c.ci].protocol
        st, idle = getattr(p, "state", None), getattr(p, "IDLE", None)
        if st is not None and idle is not None and st is not idle:
            L.violate("C04", "H3", "not-idle-after-%s" % why, "protocol.state is %s after %s" % (type(st).__name__, why))

    def finish(self):
        L = self.L
        if not getattr(L, "drained", False):
            return
        for c in L.conns.values():
            for rq in c.connects:
                if rq.pending:
                    L.violate("C04", "H6", "connect-never-fired:%s" % c.state, "connect() rid=%d never fired" % rq.rid)
            if c.state == "lost" and getattr(L, "silenced", False):
                if c.notify_expected and c.notify_calls != 1:
                    L.violate("C04", "H4", "notify-count:%d" % c.notify_calls,
                              "onDisconnection called %d times for the loss of conn %d" % (c.notify_calls, c.ci))


class GateRules(Rule):
    """C14."""

    def after(self, d):
        L = self.L
        for rq in d.apis:
            if rq.m not in ("connect", "publish", "subscribe", "unsubscribe", "disconnect"):
                continue
            if not rq.valid:
                continue
            failed = rq.refusal[0] if rq.refusal else None
            refused_state = (rq.how == "raised" and rq.exc == "MQTTStateError") or failed == "MQTTStateError"
            c = L.conns[rq.ci]
            ctx = "%s:%s:p%d" % (rq.m, rq.state_at_call, c.profile)
            if not rq.judged:
                if rq.closing_at_call is not None:
                    L.probe("api_in_closing_interval")
                continue
            if not rq.allowed:
                L.probe("disallowed_call")
                if not refused_state:
                    what = rq.exc or failed or ("accepted" if rq.how in ("deferred", "none") else rq.how)
                    L.violate("C14", "A1", "honoured:%s:%s" % (ctx, what),
                              "%s() in state %s / profile %d was not refused with MQTTStateError (%s)"
                              % (rq.m, rq.state_at_call, c.profile, what))
                if not rq.nested and len(d.apis) == 1 and (d.raw_writes or d.timers_new or d.timers_cancel or d.xcalls):
                    L.violate("C14", "A1", "effects:%s:%s" % (ctx, _effects(d)),
                              "refused %s() had effects: %s" % (rq.m, _effects(d)))
                ac = getattr(rq, "attrs_changed", None)
                if ac and refused_state:
                    L.violate("C14", "A1", "effects:%s:protocol-attributes:%s" % (ctx, "+".join(ac)),
                              "refused %s() changed the protocol object: %s" % (rq.m, ", ".join(ac)))
            else:
                if refused_state:
                    L.violate("C14", "A2", "refused:%s" % ctx,
                              "%s() in state %s / profile %d refused with MQTTStateError though allowed"
                              % (rq.m, rq.state_at_call, c.profile))
                elif rq.m == "disconnect" and rq.how != "raised" and not d.excs \
                        and not any(op.type == "DISCONNECT" and op.ci == rq.ci for op in d.writes):
                    # ... and an allowed disconnect() is carried out
                    L.violate("C14", "A2", "no-effect:%s" % ctx, "disconnect() in state %s / profile %d is allowed but wrote no DISCONNECT"
                              % (rq.state_at_call, c.profile))
                    L.violate("C18", "O4", "disconnect()-without-DISCONNECT",
                              "disconnect() on connected conn %d wrote no DISCONNECT%s"
                              % (c.ci, "" if any(x[0] == c.ci for x in d.xcalls) else " and did not ask the transport to close"))
                elif rq.how == "raised":
                    # an allowed, valid operation is carried out; it does not raise half-way through
                    L.violate("C14", "A2", "raised:%s:%s" % (ctx, rq.exc),
                              "%s() in state %s / profile %d is allowed but raised %s" % (rq.m, rq.state_at_call, c.profile, rq.exc))
        if d.kind == "data" and not d.desync and d.frame_fx:
            tags = [fx["tag"] for fx in d.frame_fx]
            if all(t == "foreign" for t in tags):
                c = d.conn
                L.probe("foreign_packet")
                if not d.effect_free():
                    fx = d.frame_fx[0]
                    key = "%s:%s:p%d:%s" % (fx["fr"].type, fx["state"], c.profile, _effects(d))
                    L.violate("C14", "A3", key, "%s received in state %s / profile %d had effects: %s"
                              % (fx["fr"].type, fx["state"], c.profile, _effects(d)))
                    if fx["fr"].type == "CONNACK":
                        L.violate("C04", "H5", "duplicate-CONNACK:%s" % _effects(d), "a CONNACK outside the handshake had effects")


class KeepaliveRules(Rule):
    """C15."""

    def after(self, d):
        L = self.L
        now = L.w.now
        for op in d.writes:
            if op.type == "PINGREQ":
                c = L.conns[op.ci]
                if c.keepalive == 0:
                    L.violate("C15", "K4", "PINGREQ-with-keepalive-0", "PINGREQ written on a connection with keepalive 0")
                if c.state == "lost":
                    L.violate("C15", "K5", "PINGREQ-after-loss", "PINGREQ written after the connection was reported lost")
                dn = getattr(c, "disconnect_n", None)
                if dn is not None and op.n > dn:
                    L.violate("C15", "K5", "PINGREQ-after-DISCONNECT",
                              "keepalive still active after disconnect(): PINGREQ written after the DISCONNECT")
                if c.state != "connected" and c.state != "lost":
                    L.violate("C15", "K1", "PINGREQ-in-%s" % c.state, "PINGREQ written in state %s" % c.state)
        if d.kind == "timer" and d.fired and d.fired["kind"] == "ping" and d.aborted:
            c = L.conns.get(d.fired["ci"])
            for pg in (c.pings if c else []):
                if pg["tid"] == d.fired["tid"]:
                    k = c.keepalive
                    if d.t < pg["t"] + k - EPS and not L.stalled:
                        L.violate("C15", "K3", "abort-before-deadline",
                                  "PINGREQ at %.3f: the connection was aborted at %.3f, before its %d s were over"
                                  % (pg["t"], d.t, k))
                    if pg["ans"] is not None and pg["ans"] < pg["t"] + k - EPS:
                        L.violate("C15", "K3", "abort-though-answered",
                                  "PINGREQ at %.3f answered at %.3f (k=%d) but the keepalive timer aborted the connection"
                                  % (pg["t"], pg["ans"], k))
        if d.kind == "timer" and d.aborted and d.fired and d.fired["kind"] in ("loop",):
            c = L.conns.get(d.fired["ci"])
            k = c.keepalive if c else 0
            late = [pg for pg in (c.pings if c else [])
                    if (pg["ans"] is None or pg["ans"] >= pg["t"] + k - EPS) and d.t >= pg["t"] + k - EPS]
            if not late:
                L.violate("C15", "K3", "abort-from-loop", "keepalive periodic task aborted the connection though no PINGREQ was overdue")
        if d.kind == "data" and not d.desync and d.frame_fx:
            tags = [fx["tag"] for fx in d.frame_fx]
            if all(t == "pingresp-extra" for t in tags):
                L.probe("unsolicited_pingresp")
                if not d.effect_free():
                    L.violate("C15", "K6", "effect:%s" % _effects(d), "unsolicited/second PINGRESP had effects: %s" % _effects(d))
        for c in L.conns.values():
            k = c.keepalive
            if c.state == "lost":
                if d.kind == "lost" and d.lost_conn is c or True:
                    for tm in L.live_timers(ci=c.ci):
                        if tm["kind"] in ("loop", "ping"):
                            L.violate("C15", "K5", "keepalive-timer-survives:%s" % tm["kind"],
                                      "a keepalive timer of conn %d is pending after its loss" % c.ci)
                continue
            if c.state != "connected" or not k:
                continue
            if c.closing is not None:
                continue
            if L.stalled:
                continue
            last = c.pings[-1]["t"] if c.pings else c.connack_t
            if now - last > k + EPS and not _overdue_before(L, last + k):
                L.violate("C15", "K1", "pingreq-late", "no PINGREQ for %.3f s with keepalive %d" % (now - last, k))
            for pg in c.pings:
                un = pg["ans"] is None or pg["ans"] > pg["t"] + k + EPS
                if un and now > pg["t"] + k + EPS and not _overdue_before(L, pg["t"] + k):
                    if not any(a[1] <= now for a in c.aborts):
                        L.violate("C15", "K2", "no-abort", "PINGREQ at %.3f unanswered for k=%d s and the connection was not aborted"
                                  % (pg["t"], k))


class HostileRules(Rule):
    """C16."""

    def after(self, d):
        L = self.L
        if d.kind in ("data", "timer") and d.excs:
            e = d.excs[0]
            if d.kind == "data":
                fx = d.frame_fx[0] if d.frame_fx else None
                ctx = "%s:%s" % (fx["fr"].type, fx["tag"]) if fx else "partial"
            else:
                ctx = "%s" % (d.fired["kind"] if d.fired else "?")
                if d.fired and d.fired.get("pkt") is not None:
                    ctx += ":" + d.fired["pkt"].type
            L.violate("C16", "X1", "%s:%s:%s" % (d.kind, ctx, e[1]), "exception escaped a %s dispatch (%s): %s %s" % (d.kind, ctx, e[1], e[2]))
        if d.conn is not None and getattr(d.conn, "had_ambiguous", False):
            L.probe("ambiguous_frame_seen")
            return
        if d.kind == "data" and not d.desync and d.conn is not None and getattr(d.conn, "had_malformed", False) \
                and not any(fx["tag"] == "malformed" for fx in d.frame_fx):
            # later dispatches of a connection that was fed a malformed packet: every delivery
            # still needs a well-formed PUBLISH (QoS 0/1) or a PUBREL releasing one
            just_cb = sum(1 for fx in d.frame_fx if fx["tag"] in ("publish-q0", "publish-q1", "pubrel-first"))
            ncb = sum(1 for x in d.cbs if x[1] == "onPublish")
            if ncb > just_cb and all(fx["state"] == "connected" for fx in d.frame_fx):
                L.violate("C16", "X3", "unjustified-delivery:later:%s" % (d.frame_fx[0]["fr"].type if d.frame_fx else "?"),
                          "onPublish called %d times, %d justified by well-formed packets (a malformed packet was received earlier on this connection)"
                          % (ncb, just_cb))
        if d.kind == "data" and not d.desync and any(fx["tag"] == "malformed" for fx in d.frame_fx):
            L.probe("malformed_frame")
            just_cb = sum(1 for fx in d.frame_fx if fx["tag"] in ("publish-q0", "publish-q1", "pubrel-first"))
            ncb = sum(1 for x in d.cbs if x[1] == "onPublish")
            if ncb > just_cb:
                bad = [fx for fx in d.frame_fx if fx["tag"] == "malformed"][0]
                L.violate("C16", "X3", "unjustified-delivery:%s:%s" % (bad["fr"].type, bad["fr"].err.why),
                          "onPublish called for a malformed %s (%s)" % (bad["fr"].type, bad["fr"].err.why))
            ok_reqs = set(id(fx["req"]) for fx in d.frame_fx if fx["tag"] in
                          ("puback-done", "pubcomp-done", "suback-done", "unsuback-done", "connack-ok"))
            for (rid, ok, val) in d.fires:
                rq = L.reqs.get(rid)
                if ok and rq is not None and rq.seq < d.seq and id(rq) not in ok_reqs:
                    bad = [fx for fx in d.frame_fx if fx["tag"] == "malformed"][0]
                    L.violate("C16", "X3", "unjustified-success:%s:%s" % (bad["fr"].type, bad["fr"].err.why),
                              "%s rid=%d succeeded on a malformed %s" % (rq.kind, rid, bad["fr"].type))

    def finish(self):
        L = self.L
        if not getattr(L, "drained", False) or not L.probes.get("malformed_frame"):
            return
        for rq in L.reqs.values():
            if rq.accepted and rq.pending and rq.kind in ("connect", "publish", "subscribe", "unsubscribe") \
                    and not (rq.kind == "publish" and not rq.qos):
                c = L.conns[rq.ci]
                if c.state == "lost" and c.clean:
                    L.violate("C16", "X4", "left-hanging:%s" % rq.kind, "%s rid=%d left pending after the connection was aborted and lost" % (rq.kind, rq.rid))


class ArgRules(Rule):
    """C20 B1 B2 B4 (B3 is the metamorphic runner)."""

    def after(self, d):
        L = self.L
        for rq in d.apis:
            if rq.soft or not rq.judged or not rq.allowed:
                continue
            if rq.kind in ("subscribe", "unsubscribe") and getattr(rq, "n_pending_same", 0) >= rq.window_at_call:
                continue
            failed = rq.refusal
            if rq.invalid:
                L.probe("invalid_call")
                why = rq.invalid[0]
                if rq.returns_deferred:
                    good = rq.how == "deferred" and failed is not None and failed[2]
                    what = failed[0] if failed else (rq.exc if rq.how == "raised" else ("accepted" if rq.how == "deferred" else rq.how))
                else:
                    good = rq.how == "raised" and getattr(rq, "exc_vt", False)
                    what = rq.exc if rq.how == "raised" else "accepted"
                if not good:
                    L.violate("C20", "B1", "%s:%s:%s" % (rq.m, why, what),
                              "%s(%s) was not refused with ValueError/TypeError %s: %s"
                              % (rq.m, why, "Deferred failure" if rq.returns_deferred else "raised", what))
                    if rq.m in ("connect", "publish") and ("too-long" in why or "payload-type" in why):
                        L.violate("C02", "W5", "%s:%s:%s" % (rq.m, why, what), "unrepresentable argument not refused: %s" % what)
                ac = getattr(rq, "attrs_changed", None)
                if ac:
                    L.violate("C20", "B2", "%s:%s:protocol-attributes:%s" % (rq.m, why, "+".join(ac)),
                              "rejected %s(%s) changed the protocol object: %s" % (rq.m, why, ", ".join(ac)))
                if not rq.nested and len(d.apis) == 1:
                    eff = bool(d.raw_writes or d.timers_new or d.timers_cancel or d.xcalls or d.cbs or len(d.fires) > 1)
                    st = getattr(rq, "states", None)
                    if eff or (st and st[0] != st[1]):
                        L.violate("C20", "B2", "%s:%s:%s" % (rq.m, why, _effects(d) if eff else "state-changed"),
                                  "rejected %s(%s) had effects: %s" % (rq.m, why, _effects(d) if eff else st))
                        if d.raw_writes:
                            L.violate("C02", "W5", "%s:%s:wrote" % (rq.m, why), "bytes written for an unrepresentable argument")
            elif rq.valid:
                if rq.returns_deferred:
                    if failed is not None and failed[2]:
                        L.violate("C20", "B4", "%s:%s" % (rq.m, failed[0]), "valid %s() failed with %s" % (rq.m, failed[0]))
                    elif rq.how == "raised":
                        L.violate("C20", "B4", "%s:raised:%s" % (rq.m, rq.exc), "valid %s() raised %s" % (rq.m, rq.exc))
                elif rq.m != "disconnect" and rq.how == "raised":
                    L.violate("C20", "B4", "%s:raised:%s" % (rq.m, rq.exc), "valid %s() raised %s" % (rq.m, rq.exc))


class QuietRules(Rule):
    """C13 T3 T5 T6."""

    def after(self, d):
        L = self.L
        for c in L.conns.values():
            if c.state == "lost":
                for tm in L.live_timers(ci=c.ci):
                    if tm["kind"] not in ("notify", "connect"):
                        L.probe("timer_survives_loss")
                        L.violate("C13", "T5", "timer-of-lost-connection:%s" % tm["kind"],
                                  "timer (%s) of conn %d still pending after its loss was reported" % (tm["kind"], c.ci))
                continue
            if c.state != "connected" or c.closing is not None or c.keepalive:
                continue
            s = L.session(c.addr)
            if s.fifo or any(r.pending for r in s.reqs):
                continue
            if any(r.pending for cc in L.conns.values() if cc.addr == c.addr for r in cc.connects):
                continue
            for cc in L.conns.values():
                if cc.addr != c.addr:
                    continue
                for tm in L.live_timers(ci=cc.ci):
                    if tm["kind"] == "notify":
                        continue
                    if tm["kind"] == "connect" and cc.state == "lost":
                        continue
                    L.probe("timer_while_idle")
                    L.violate("C13", "T3", "timer-while-idle:%s" % tm["kind"],
                              "connected, keepalive off, nothing outstanding, yet a %s timer (of conn %d) is scheduled"
                              % (tm["kind"], cc.ci))

    def finish(self):
        L = self.L
        if getattr(L, "silenced", False):
            left = L.w.pending_timers()
            if left:
                L.violate("C13", "T6", "timers-remain:%s" % left[0][2], "%d timer(s) remain after every connection ended: %r" % (len(left), left[:3]))
