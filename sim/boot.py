"""Process bootstrap: hash-seed re-exec, sys.path, simulated reactor installation,
jitter seam.  Must be imported before anything imports `mqtt` or
`twisted.internet.reactor`.

Seams used (no source change in /repo):
  * twisted.internet.main.installReactor(SimReactor)  -> `from twisted.internet
    import reactor` in mqtt/client/base.py binds our callLater (class attribute
    MQTTBaseProtocol.callLater) and task.LoopingCall picks it up as its clock;
  * module attribute mqtt.client.interval.random      -> jitter source;
  * transport object passed to Protocol.makeConnection.
"""
import os
import sys

GUARD = "TWISTED_MQTT_VERIF"


def reexec_with_fixed_hashseed():
    want = os.environ.get("VERIF_HASHSEED", "0")
    if os.environ.get("PYTHONHASHSEED") != want:
        env = dict(os.environ)
        env["PYTHONHASHSEED"] = want
        os.execve(sys.executable, [sys.executable] + sys.argv, env)


_BOOTED = None


def boot():
    """Install the simulated reactor and import the client from VERIF_REPO_SRC.
    Returns the module namespace object used by the simulator."""
    global _BOOTED
    if _BOOTED is not None:
        return _BOOTED
    os.environ.setdefault(GUARD, "1")
    src = os.environ.get("VERIF_REPO_SRC", "/repo/src")
    # make sure *this* tree is what gets imported, not an installed copy
    sys.path[:] = [p for p in sys.path if p not in (src,)]
    sys.path.insert(0, src)
    sys.dont_write_bytecode = True
    for name in list(sys.modules):
        if name == "mqtt" or name.startswith("mqtt."):
            raise RuntimeError("mqtt imported before boot()")
    if "twisted.internet.reactor" in sys.modules:
        raise RuntimeError("a reactor was installed before boot()")

    from sim.world import SimReactor, JitterSource
    from twisted.internet import main as timain
    reactor = SimReactor()
    timain.installReactor(reactor)

    if not os.path.exists(os.path.join(src, "mqtt", "_version.py")):
        # generated at build time and git-ignored: absent from a bare checkout
        import types
        m = types.ModuleType("mqtt._version")
        m.__version__ = "0+verif"
        sys.modules["mqtt._version"] = m
    import mqtt
    if not os.path.abspath(mqtt.__file__).startswith(os.path.abspath(src)):
        raise RuntimeError("mqtt imported from %s, expected under %s" % (mqtt.__file__, src))
    import mqtt.client.interval as interval
    import mqtt.client.base as base
    import mqtt.client.pubsubs as pubsubs
    import mqtt.client.publisher   # noqa
    import mqtt.client.subscriber  # noqa
    import mqtt.client.factory as factory
    import mqtt.error as mqerror

    # Failures nobody handles (e.g. an exception inside the keepalive LoopingCall, which
    # Twisted turns into an errback of a Deferred the client discards) are logged by
    # Twisted when that Deferred is released - with reference counting that is at once,
    # inside the dispatch that caused it.  Observe them instead of printing them.
    from twisted.logger import globalLogBeginner

    def _observer(event):
        f = event.get("log_failure")
        if f is None:
            return
        w = reactor.world
        if w is not None:
            w._unhandled(f)
    try:
        globalLogBeginner.beginLoggingTo([_observer], redirectStandardIO=False, discardBuffer=True)
    except Exception:
        pass

    jitter = JitterSource()
    interval.random = jitter
    # the class attribute must be *our* reactor's callLater
    cl = base.MQTTBaseProtocol.__dict__.get("callLater")
    if getattr(cl, "__self__", None) is not reactor:
        raise RuntimeError("MQTTBaseProtocol.callLater is not bound to the simulated reactor")

    class NS(object):
        pass
    ns = NS()
    ns.reactor = reactor
    ns.jitter = jitter
    ns.mqtt = mqtt
    ns.base = base
    ns.pubsubs = pubsubs
    ns.factory = factory
    ns.error = mqerror
    ns.src = src
    _BOOTED = ns
    return ns
