"""Scenarios at the far end of a size range, which seeded generation cannot
afford to reach by chance: the 268435455-byte limit of the remaining-length
field (C02) and a queue of more than 65535 held-back messages (C10, C17).
They are fixed step lists run on the same simulated world; the oracle reads the
event log directly (rl_limit) or is the ordinary ledger (deep_queue)."""
import random

from sim.world import World
from sim.engine import Ledger
from sim import refcodec as rc

RL_MAX = 268435455


def _writes(w, from_i=0):
    return [e for e in w.events[from_i:] if e[0] == "W"]


def rl_limit(ns, tier, seed=0):
    """publish() whose PUBLISH would need a remaining length of RL_MAX + 1 is
    refused without a byte written (cheap on a correct client: it is refused
    before anything is encoded); thorough tier: RL_MAX itself is accepted and
    framed with the four-byte length ff ff ff 7f."""
    out = {"viol": [], "coverage": {"rl_limit_cases": 0, "rl_limit_accept_cases": 0}}
    rng = random.Random(seed)
    cases = []
    for qos in (0, 1):
        topic = rng.choice(["t", "é/x", "a/b/c"])
        over = RL_MAX + 1 - (2 + len(topic.encode("utf-8")) + (2 if qos else 0))
        cases.append((qos, topic, over, False))
    if tier == "thorough":
        # needs about 2 GiB of memory for a moment: only where that is clearly available
        avail = 0
        try:
            with open("/proc/meminfo") as f:
                for line in f:
                    if line.startswith("MemAvailable:"):
                        avail = int(line.split()[1]) // 1024
        except (OSError, ValueError):
            pass
        if avail >= 8192:
            cases.append((1, "t", RL_MAX - 5, True))
        else:
            out["coverage"]["rl_limit_accept_skipped_mem_available_mib"] = avail
    for (qos, topic, n, fits) in cases:
        cfg = {"profile": 2, "version": 4, "jitter": "zero", "family": "rl-limit"}
        w = World(ns, cfg)
        for st in ({"op": "app.build", "addr": "A"},
                   {"op": "app.call", "addr": "A", "m": "connect", "a": ["rl"], "k": {"keepalive": 0}},
                   {"op": "brk.connack", "addr": "A", "rc": 0}):
            w.run_step(st)
        i0 = len(w.events)
        st = {"op": "app.call", "addr": "A", "m": "publish",
              "k": {"topic": topic, "message": {"$": "barep", "s": "z", "n": n}, "qos": qos}}
        try:
            w.run_step(st)
        except MemoryError:
            out["coverage"]["rl_limit_memory_error"] = out["coverage"].get("rl_limit_memory_error", 0) + 1
            del w
            continue
        ws = _writes(w, i0)
        ret = [e for e in w.events[i0:] if e[0] == "R"]
        fired = [e for e in w.events[i0:] if e[0] == "F"]
        out["coverage"]["rl_limit_accept_cases" if fits else "rl_limit_cases"] += 1
        bad = None
        if not fits:
            if ws:
                head = bytes(ws[0][4][:8]).hex()
                bad = ("C02.W5:remaining-length-over-limit:written",
                       "publish() whose packet needs remaining length %d (limit %d) wrote %d bytes starting %s"
                       % (RL_MAX + 1, RL_MAX, sum(len(e[4]) for e in ws), head))
            elif ret and ret[0][4] == "deferred" and not (fired and not fired[0][4]):
                bad = ("C02.W5:remaining-length-over-limit:accepted",
                       "publish() whose packet needs remaining length %d was not refused" % (RL_MAX + 1))
            elif fired and not fired[0][4] and not fired[0][5][2]:
                bad = ("C02.W5:remaining-length-over-limit:%s" % fired[0][5][0],
                       "refused with %s, which is neither ValueError nor TypeError" % fired[0][5][0])
            elif ret and ret[0][4] == "raised":
                bad = ("C02.W5:remaining-length-over-limit:raised", "publish() raised instead of returning a failed Deferred")
        else:
            data = b"".join(bytes(e[4]) for e in ws)
            exp_head = bytes([0x32]) + rc.enc_varint(RL_MAX)
            if len(data) != 1 + 4 + RL_MAX or data[:5] != exp_head:
                bad = ("C02.W1:PUBLISH:remaining-length-at-limit",
                       "PUBLISH of remaining length %d: %d bytes written, header %s (expected %d bytes, header %s)"
                       % (RL_MAX, len(data), data[:6].hex(), 1 + 4 + RL_MAX, exp_head.hex()))
            else:
                tb = topic.encode("utf-8")
                body = 5
                if data[body:body + 2 + len(tb)] != len(tb).to_bytes(2, "big") + tb or data[-1:] != b"z" \
                        or data.count(b"z", body + 2 + len(tb) + 2) != n:
                    bad = ("C02.W1:PUBLISH:content-at-limit", "PUBLISH of remaining length %d carries the wrong content" % RL_MAX)
            del data
        if bad:
            out["viol"].append({"sig": bad[0], "seed": seed, "kind": "c02rl", "nsteps": 4, "msg": bad[1],
                                "replay": {"kind": "c02rl", "property": "C02", "signature": bad[0], "seed": seed,
                                           "tier": tier}})
        del w
    return out


def deep_queue(ns, seed, prop):
    """More than 65535 messages held back behind a QoS 1 message (window 1):
    nothing may be dropped from the queue, the identifier of the message at its
    head stays in use (the counter is brought round to it), and once the window
    opens everything is sent, once, in the order of the calls.  The oracle reads
    the event log directly (the ledger is quadratic in the queue length)."""
    rng = random.Random(seed)
    out = {"viol": [], "coverage": {}}
    cfg = {"profile": 3, "version": 4, "jitter": "zero", "family": "deepqueue"}
    w = World(ns, cfg)
    nq = 65535 + rng.choice([1, 2, 40])
    qos_b = rng.choice([1, 2])
    for st in ({"op": "app.build", "addr": "A"},
               {"op": "app.call", "addr": "A", "m": "connect", "a": ["deep"], "k": {"cleanStart": True, "keepalive": 0}},
               {"op": "brk.connack", "addr": "A", "rc": 0},
               {"op": "app.call", "addr": "A", "m": "publish", "k": {"topic": "h", "message": "A", "qos": 1}},
               {"op": "app.call", "addr": "A", "m": "publish", "k": {"topic": "h", "message": "B", "qos": qos_b}}):
        w.run_step(st)
    ids = [e[5] for e in w.events if e[0] == "R" and e[4] == "deferred" and isinstance(e[5], int) and not isinstance(e[5], bool)]
    bad = []

    def viol(rule, key, msg):
        bad.append(("%s:%s" % (rule, key), msg))
    if len(ids) != 2:
        return out            # not the situation this scenario is about (judged by the seeded runs)
    id_a, id_b = ids
    i0 = len(w.events)
    for n in range(nq):
        w.run_step({"op": "app.call", "addr": "A", "m": "publish", "k": {"topic": "q", "message": "%d" % (n % 10), "qos": 0}})
    ws = [e for e in w.events[i0:] if e[0] == "W"]
    if ws:
        viol("C10.F3", "overtaking", "%d writes while %d QoS 0 messages were queued behind a held-back QoS %d message"
             % (len(ws), nq, qos_b))
    del w.events[i0:]
    # the counter one cycle later, right before the identifier of the message at the head of the queue
    i1 = len(w.events)
    w.run_step({"op": "sim.set_id", "value": (id_b - 2) % 65535 + 1})
    w.run_step({"op": "app.call", "addr": "A", "m": "subscribe", "a": ["s/#", 1]})
    got = [e[5] for e in w.events[i1:] if e[0] == "R" and e[4] == "deferred"]
    if got and got[0] in (id_a, id_b):
        viol("C17.I2", "publish-vs-subscribe", "identifier %r given to subscribe while the PUBLISH holding it is %s"
             % (got[0], "held back behind %d messages" % nq if got[0] == id_b else "unacknowledged"))
    # the window opens: B, then every held-back QoS 0 message, in the order of the calls
    i2 = len(w.events)
    w.run_step({"op": "brk.ack", "addr": "A", "kind": "PUBACK", "ref": 0})
    data = b"".join(bytes(e[4]) for e in w.events[i2:] if e[0] == "W")
    frames, pos, err = rc.split_stream(data, 0)
    pubs = [f for f in frames if f[0] >> 4 == 3]
    first_b = bool(pubs) and (pubs[0][0] & 0x06) >> 1 == qos_b and pubs[0][-1:] == b"B"
    q0 = [f for f in pubs if (f[0] & 0x06) == 0]
    if err is not None or pos != len(data):
        viol("C18.O1", "deep-queue-stream", "output after the window opened does not parse")
    if not first_b:
        viol("C10.F3", "order", "the QoS %d message at the head of the queue was not the first one sent when the window opened" % qos_b)
    if len(q0) != nq:
        viol("C10.F4", "never-sent", "%d QoS 0 messages were accepted behind a full window, %d were sent once it opened" % (nq, len(q0)))
    elif [f[-1] - 48 for f in q0] != [k % 10 for k in range(nq)]:
        viol("C10.F3", "order", "held-back QoS 0 messages were not sent in the order of the calls")
    out["coverage"]["deep_queue_held_back"] = nq + 1
    out["coverage"]["deep_queue_sent_on_release"] = len(pubs)
    for (sig, msg) in bad:
        if sig.startswith(prop):
            out["viol"].append({"sig": sig.replace(".", ".DQ-", 1), "seed": seed, "kind": "deepq", "nsteps": nq + 8, "msg": msg,
                                "replay": {"kind": "deepq", "property": prop, "signature": sig, "seed": seed}})
    return out
