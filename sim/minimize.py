"""ddmin over the step list + per-step simplification, keeping a candidate only
if the same violation signature still fires."""
import copy

from sim import runner


def _fails(ns, cfg, steps, sig, props, counter):
    counter[0] += 1
    try:
        r = runner.run_steps(ns, cfg, steps, props)
    except Exception:
        return False
    return any(v.sig == sig for v in r.violations)


def _tail(steps):
    """drain/silence markers stay at the end if the signature needs them."""
    return [s for s in steps if s["op"] in ("drain", "silence")]


def minimize(ns, cfg, steps, sig, props=None, budget=1500):
    counter = [0]
    steps = list(steps)
    if not _fails(ns, cfg, steps, sig, props, counter):
        return None, counter[0]
    # try without drain/silence first
    body = [s for s in steps if s["op"] not in ("drain", "silence")]
    tail = _tail(steps)
    if tail and _fails(ns, cfg, body, sig, props, counter):
        tail = []
    elif len(tail) == 2 and _fails(ns, cfg, body + tail[:1], sig, props, counter):
        tail = tail[:1]
    # ddmin on body
    n = 2
    while len(body) >= 2 and counter[0] < budget:
        chunk = max(1, len(body) // n)
        removed = False
        i = 0
        while i < len(body) and counter[0] < budget:
            cand = body[:i] + body[i + chunk:]
            if cand != body and _fails(ns, cfg, cand + tail, sig, props, counter):
                body = cand
                removed = True
                n = max(n - 1, 2)
            else:
                i += chunk
        if not removed:
            if chunk == 1:
                break
            n = min(len(body), n * 2)
    # single-step removal pass until fixpoint
    changed = True
    while changed and counter[0] < budget:
        changed = False
        for i in range(len(body) - 1, -1, -1):
            cand = body[:i] + body[i + 1:]
            if _fails(ns, cfg, cand + tail, sig, props, counter):
                body = cand
                changed = True
            if counter[0] >= budget:
                break
    # simplify configuration
    for key, val in (("jitter", "zero"), ("jitter", "half"), ("start_id", None), ("two_addr", False)):
        if cfg.get(key) != val and counter[0] < budget:
            c2 = dict(cfg)
            c2[key] = val
            if _fails(ns, c2, body + tail, sig, props, counter):
                cfg = c2
    # simplify steps
    for i in range(len(body)):
        if counter[0] >= budget:
            break
        for simp in _simpler(body[i]):
            cand = body[:i] + [simp] + body[i + 1:]
            if _fails(ns, cfg, cand + tail, sig, props, counter):
                body = cand
                break
    return (cfg, body + tail), counter[0]


def _simpler(st):
    out = []
    s = copy.deepcopy(st)
    if "then" in s:
        t = copy.deepcopy(s)
        del t["then"]
        out.append(t)
    if "cut" in s:
        t = copy.deepcopy(s)
        del t["cut"]
        out.append(t)
    if s.get("op") == "app.call":
        k = s.get("k", {})
        if s["m"] == "publish":
            t = copy.deepcopy(s)
            t["k"]["topic"] = "t"
            t["k"]["message"] = "m"
            t["k"].pop("retain", None)
            if t != s:
                out.append(t)
        if s["m"] == "connect":
            t = copy.deepcopy(s)
            for key in ("willTopic", "willMessage", "willQoS", "willRetain", "username", "password"):
                t["k"].pop(key, None)
            t["a"] = ["c"]
            if t != s:
                out.append(t)
            if k.get("keepalive"):
                t2 = copy.deepcopy(t)
                t2["k"]["keepalive"] = 0
                out.append(t2)
        if s["m"] == "subscribe":
            t = copy.deepcopy(s)
            t["a"] = ["t", 0]
            if t != s:
                out.append(t)
        if s["m"] == "unsubscribe":
            t = copy.deepcopy(s)
            t["a"] = ["t"]
            if t != s:
                out.append(t)
    if s.get("op") == "brk.publish" and s.get("mode", "new") == "new":
        t = copy.deepcopy(s)
        t["topic"] = "t"
        t["payload"] = "p"
        t["retain"] = False
        t["dup"] = False
        if t != s:
            out.append(t)
    if s.get("op") == "time.fire" and s.get("tie"):
        t = copy.deepcopy(s)
        t["tie"] = 0
        out.append(t)
    if s.get("op") == "app.build":
        t = {"op": "app.build", "addr": s.get("addr", "A")}
        if t != s:
            out.append(t)
    return out
