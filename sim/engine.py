"""Ledger engine: turns the World's raw event log into Disp records, keeps the
request / connection / exchange records of sim.ledger up to date and calls the
rule modules after every dispatch."""
from sim import refcodec as rc
from sim import apispec
from sim.ledger import (Violation, Disp, OutPkt, InFrame, ConnL, Req, InEx, Sess)

SUB, PUB = 1, 2
TIMER_WORTHY = ("CONNECT", "PINGREQ", "PUBREL", "SUBSCRIBE", "UNSUBSCRIBE")


def _is_int(x):
    return isinstance(x, int) and not isinstance(x, bool)


def _dying(r, d):
    """The request is failed later in this very dispatch (e.g. it has already been taken
    out by a session purge whose errbacks are still being delivered): for window,
    FIFO and identifier purposes it is gone already."""
    return bool(r.fires) and r.fires[0][0] == d.seq and not r.fires[0][1]


class Ledger(object):
    def __init__(self, world, rules, props=None):
        self.w = world
        self.rules = rules              # list of rule objects
        self.props = props
        self.pos = 0
        self.conns = {}
        self.sess = {}
        self.reqs = {}
        self.timers = {}                # tid -> dict(kind, ci, due, t0, seq, pkt, req, alive, fired)
        self.alive = {}                 # tid -> same dict, live timers only
        self.violations = []
        self.seen_sigs = set()
        self.tainted = set()
        self.disps = 0
        self.probes = {}
        self.states = set()
        self.trans = set()
        self.stalled = False
        self.last = None
        for r in rules:
            r.bind(self)

    # ------------------------------------------------------------------ api

    def probe(self, name, n=1):
        self.probes[name] = self.probes.get(name, 0) + n

    def violate(self, prop, rule, key, msg, seq=None, despite=()):
        """despite: taint reasons under which this (direct, attribution-free)
        observation is still reported."""
        if self.props is not None and prop not in self.props:
            return
        v = Violation(prop, rule, key, msg, self.w.seq if seq is None else seq)
        if prop in self.tainted and not (despite and self.taint_reasons <= set(despite)):
            return
        if v.sig in self.seen_sigs:
            return
        self.seen_sigs.add(v.sig)
        self.violations.append(v)

    taint_reasons = frozenset()

    def taint_why(self, why):
        self.taint_reasons = frozenset(self.taint_reasons | {why})

    def taint(self, *props):
        """After this dispatch the ledger no longer describes the client reliably
        for these properties (e.g. after an id collision)."""
        self.tainted |= set(props)

    def session(self, addr):
        s = self.sess.get(addr)
        if s is None:
            s = self.sess[addr] = Sess(addr)
        return s

    def live_timers(self, ci=None, kinds=None):
        out = []
        for tid, tm in self.alive.items():
            if not tm["alive"]:
                continue
            if ci is not None and tm["ci"] != ci:
                continue
            if kinds is not None and tm["kind"] not in kinds:
                continue
            out.append(tm)
        return out

    # ------------------------------------------------------------- observer

    def observe(self, world):
        evs = world.events
        n = len(evs)
        i = self.pos
        # skip notes between dispatches
        while i < n and evs[i][0] != "D":
            i += 1
        if i >= n:
            self.pos = n
            return
        d = self._scan(evs, i, n)
        self.pos = n
        self._replay(d)
        self.disps += 1
        self.last = d
        if self.disps % 64 == 0:
            # keep the per-address request lists short (long histories): settled
            # requests older than the previous dispatch are not needed by any rule
            for ss in self.sess.values():
                if len(ss.reqs) > 64:
                    keep = set(id(r) for r in ss.fifo) | set(id(r) for r in ss.dead_fifo)
                    ss.reqs = [r for r in ss.reqs if r.ended is None or r.ended >= d.seq - 1 or id(r) in keep
                               or not r.fires]
        for r in self.rules:
            r.after(d)
        self._abstract(d)
        tn = getattr(self, "_taint_next", None)
        if tn:
            self.tainted |= tn
            self._taint_next = set()

    # ---------------------------------------------------------------- phase 1

    def _conn(self, ci):
        c = self.conns.get(ci)
        if c is None:
            wc = self.w.conns[ci]
            c = self.conns[ci] = ConnL(ci, wc.addr, wc.profile)
        return c

    def _scan(self, evs, i, n):
        e = evs[i]
        d = Disp(e[1], e[2], e[3], e[4], e[5], e[6])
        stack = []
        if d.kind == "api":
            req = self._new_req(d, e[6], d.ci, nested=False)
            d.order.append(("API", req))
            stack.append(req)
        elif d.kind == "make":
            c = self._conn(d.ci)
            c.made_seq = d.seq
            cbs = e[6]["cbs"]
            c.handlers = {"onPublish": cbs[0], "onDisconnection": cbs[1], "onMqttConnectionMade": cbs[2]}
        for j in range(i + 1, n):
            e = evs[j]
            k = e[0]
            if k == "W":
                d.raw_writes.append((e[3], e[4], e[5]))
                c = self._conn(e[3])
                if c.first_write_seq is None:
                    c.first_write_seq = d.seq
                c.outbuf.extend(e[4])
                frames, pos, err = rc.split_stream(c.outbuf, c.outpos)
                c.outpos = pos
                for raw in frames:
                    ver = self._out_version(c, raw, stack)
                    try:
                        pkt = rc.decode(raw, ver, strict=True, direction="c2b")
                        perr = None
                    except rc.Malformed as ex:
                        perr = ex
                        try:
                            pkt = rc.decode(raw, ver, strict=False)
                        except rc.Malformed:
                            pkt = None
                    op = OutPkt(d.seq, d.t, c.ci, raw, pkt, perr, e[5])
                    op.n = len(c.out)
                    c.out.append(op)
                    d.writes.append(op)
                    d.order.append(("W", op, stack[-1] if stack else None))
                if err is not None:
                    d.order.append(("WERR", c.ci, err))
            elif k == "TN":
                d.timers_new.append((e[3], e[4], e[5], e[6]))
                d.order.append(("TN", e[3], e[4], e[5], e[6]))
            elif k == "TC":
                d.timers_cancel.append(e[3])
                d.order.append(("TC", e[3]))
            elif k == "F":
                d.fires.append((e[3], e[4], e[5]))
                rq = self.reqs.get(e[3])
                if rq is not None:
                    rq.fires.append((d.seq, e[4], e[5]))
                d.order.append(("F", e[3], e[4], e[5]))
            elif k == "CB":
                d.cbs.append((e[3], e[4], e[5]))
                d.order.append(("CB", e[3], e[4], e[5]))
            elif k == "X":
                d.xcalls.append((e[3], e[4]))
                d.order.append(("X", e[3], e[4]))
            elif k == "E":
                d.excs.append((e[3], e[4], e[5]))
                d.order.append(("E", e[3], e[4], e[5]))
            elif k == "I":
                c = self._conn(e[3])
                d.desync = e[5]
                pend_frames = []
                for raw in e[4]:
                    ok, res = rc.judge_b2c(raw, c.version)
                    fr = InFrame(raw, ok, res if ok else None, None if ok else res)
                    d.frames.append(fr)
                    pend_frames.append(fr)
                d._pend_frames = pend_frames
                d._in_at = len(d.order)
                d._markers = 0
            elif k == "P":
                pf = getattr(d, "_pend_frames", None)
                d._markers = getattr(d, "_markers", 0) + 1
                if pf:
                    d.order.append(("IN", pf.pop(0)))
            elif k == "A":
                req = self._new_req(d, e[4], e[3], nested=True)
                d.order.append(("API", req))
                stack.append(req)
            elif k == "R":
                rq = self.reqs.get(e[3])
                d.rets.append((e[3], e[4], e[5]))
                if rq is not None:
                    rq.states = e[6]
                    rq.how = e[4]
                    if e[4] == "raised":
                        rq.exc = e[5][0]
                        rq.exc_vt = e[5][1]
                    elif e[4] == "deferred":
                        rq.msgId = e[5]
                        rq.ret_state = e[7] if len(e) > 7 else "pending"
                d.order.append(("RET", rq))
                if stack and stack[-1] is rq:
                    stack.pop()
            elif k == "AC":
                rq = self.reqs.get(e[3])
                if rq is not None:
                    rq.attrs_changed = e[4]
            elif k == "J":
                d.jit.append(e[4])
                d.order.append(("J", e[4]))
            elif k == "N":
                continue
        pf = getattr(d, "_pend_frames", None)
        if pf:
            if getattr(d, "_markers", 0) == 0:
                # no packet markers (the probe is not available): all frames first
                d.coarse = True
                at = d._in_at
                d.order[at:at] = [("IN", fr) for fr in pf]
            else:
                # the client stopped before these packets (exception, or it framed differently)
                d.unprocessed = list(pf)
                for fr in pf:
                    d.frames.remove(fr)
        return d

    def _out_version(self, c, raw, stack):
        if (raw[0] >> 4) == 1:
            # judge a CONNECT under the version its own header announces; the
            # requested version is compared separately (C02.W3)
            try:
                p = rc.decode(raw, rc.V311, strict=False)
                if p.get("level") == 3:
                    return rc.V31
            except rc.Malformed:
                pass
            return rc.V311
        return c.version

    def _new_req(self, d, info, ci, nested):
        m = info["m"]
        kind = m if m in ("connect", "publish", "subscribe", "unsubscribe", "disconnect") else "other"
        c = self._conn(ci)
        rq = Req(info["rid"], kind, c.addr, ci, d.seq, d.t)
        rq.m = m
        rq.a = info.get("a", [])
        rq.k = info.get("k", {})
        rq.nested = nested
        rq.tag = info.get("tag")
        self.reqs[rq.rid] = rq
        d.apis.append(rq)
        return rq

    # ---------------------------------------------------------------- phase 2

    SIGS = {
        "connect": ["clientId", "keepalive", "willTopic", "willMessage", "willQoS", "willRetain",
                    "username", "password", "cleanStart", "version"],
        "publish": ["topic", "message", "qos", "retain"],
        "subscribe": ["topics", "qos"],
        "unsubscribe": ["topics"],
        "setWindowSize": ["n"],
        "setTimeout": ["timeout"],
        "setBandwith": ["bandwith", "factor"],
        "disconnect": [],
    }
    DEFAULTS = {
        "connect": {"keepalive": 0, "willTopic": None, "willMessage": None, "willQoS": 0, "willRetain": False,
                    "username": None, "password": None, "cleanStart": True, "version": ("ver", 4, "MQTT")},
        "publish": {"qos": 0, "retain": False},
        "subscribe": {"qos": 0},
        "setBandwith": {"factor": 2},
    }

    @staticmethod
    def _val(v):
        """Arg-language value -> python value usable for classification."""
        if isinstance(v, dict) and "$" in v:
            k = v["$"]
            if k == "ba":
                return bytearray(v["v"].encode("utf-8"))
            if k == "bahex":
                return bytearray(bytes.fromhex(v["v"]))
            if k == "rep":
                return v["s"] * v["n"]
            if k == "barep":
                return bytearray(v["s"].encode("utf-8") * v["n"])
            if k == "obj":
                return Ellipsis          # stands for "some object of an unsupported type"
            if k == "tuple":
                return tuple(Ledger._val(x) for x in v["v"])
            if k == "bytes":
                return bytes.fromhex(v["v"])
            if k == "v31":
                return ("ver", 3, "MQIsdp")
            if k == "v311":
                return ("ver", 4, "MQTT")
            if k == "ver":
                return ("ver", v["level"], v["tag"])
            if k == "none":
                return None
            if k == "topics":
                return [("%s%d" % (v.get("p", "t/"), i), v["q"][i % len(v["q"])]) for i in range(v["n"])]
            if k == "names":
                return ["%s%d" % (v.get("p", "t/"), i) for i in range(v["n"])]
        if isinstance(v, list):
            return [Ledger._val(x) for x in v]
        return v

    def _bind_args(self, rq):
        names = self.SIGS.get(rq.m)
        if names is None:
            rq.args = None
            return
        args = dict(self.DEFAULTS.get(rq.m, {}))
        ok = True
        for i, a in enumerate(rq.a):
            if i < len(names):
                args[names[i]] = self._val(a)
            else:
                ok = False
        for k, v in rq.k.items():
            if k in names:
                args[k] = self._val(v)
            else:
                ok = False
        for nm in names:
            if nm not in args:
                ok = False
        rq.args = args
        rq.sig_ok = ok

    def _replay(self, d):
        w = self.w
        c0 = self.conns.get(d.ci) if d.ci is not None else None
        d.conn = c0
        d.pre_state = (c0.state, c0.closing) if c0 is not None else None
        d.tw = []
        d.plain = []
        d.loop_timers = []
        d.notify_timers = []
        d.fired = None
        d.first_tx = []
        d.retx = []
        d.stale_tx = []
        d.aborted = False
        d.closed_in = False      # some transport close call was made in this dispatch
        d.lost_conn = None
        d.connack = None
        d.connacks = []
        d.frame_fx = []
        if w.stalled and not self.stalled:
            self.stalled = True
        if d.kind == "timer":
            tm = self.timers.get(d.info["tid"])
            if tm is not None:
                tm["alive"] = False
                tm["fired_seq"] = d.seq
                tm["fired_t"] = d.t
                self.alive.pop(d.info["tid"], None)
            d.fired = tm
        if d.kind == "lost" and c0 is not None:
            d.lost_conn = c0
            d.pre_lost_state = c0.state
            c0.state = "lost"
            c0.lost_seq = d.seq
            c0.lost_t = d.t
            c0.lost_kind = d.info["kind"]
            c0.lost_reason = d.info["reason"]
            c0.notify_expected = bool(w.conns[c0.ci].handlers.get("onDisconnection"))
            d.pending_at_loss = [r for r in self.session(c0.addr).reqs if r.pending_before(d.seq)]
            d.stage_at_loss = dict((r.rid, r.stage() if not r.fires else
                                    ("held" if not r.tx else "sent")) for r in d.pending_at_loss)
        for it in d.order:
            k = it[0]
            if k == "API":
                self._api_start(d, it[1])
            elif k == "RET":
                pass
            elif k == "W":
                self._on_out(d, it[1], it[2])
            elif k == "TN":
                tid, due, label, ci = it[1], it[2], it[3], it[4]
                kind = "loop" if label == "LoopingCall" else ("notify" if label == "notify" else "plain")
                self.timers[tid] = {"tid": tid, "kind": kind, "ci": ci, "due": due, "t0": d.t, "seq": d.seq,
                                    "pkt": None, "req": None, "alive": True, "label": label,
                                    "jit": None}
                self.alive[tid] = self.timers[tid]
                if kind == "plain":
                    d.plain.append(tid)
                elif kind == "loop":
                    d.loop_timers.append(tid)
                else:
                    d.notify_timers.append(tid)
            elif k == "TC":
                tm = self.timers.get(it[1])
                if tm is not None:
                    tm["alive"] = False
                    tm["cancel_seq"] = d.seq
                    self.alive.pop(it[1], None)
            elif k == "F":
                self._on_fire(d, it[1], it[2], it[3])
            elif k == "CB":
                cc = self.conns.get(it[1])
                if cc is not None and it[2] == "onDisconnection":
                    cc.notify_calls += 1
            elif k == "X":
                cc = self._conn(it[1])
                what = it[2]
                d.closed_in = True
                if what == "abort":
                    d.aborted = True
                    cc.aborts.append((d.seq, d.t, d.kind, d.fired["kind"] if d.fired else None))
                if cc.closing is None and cc.state != "lost":
                    cc.closing = what
                    cc.closing_seq = d.seq
                    cc.closing_t = d.t
                elif what == "abort" and cc.closing == "lose":
                    cc.closing = "abort"
            elif k == "IN":
                self._on_in(d, it[1])
            elif k == "WERR":
                pass
        # pair timers with the timer-worthy packets written in this dispatch
        d.extra_timers = []
        d.untimed = []
        jit = list(d.jit)
        for i, tid in enumerate(d.plain):
            tm = self.timers[tid]
            if i < len(d.tw):
                op = d.tw[i]
                op.timer = tid
                tm["pkt"] = op
                tm["req"] = op.req
                tm["kind"] = {"CONNECT": "connect", "PINGREQ": "ping"}.get(op.type, "retry")
            else:
                tm["kind"] = "extra"
                d.extra_timers.append(tid)
        if len(d.tw) > len(d.plain):
            d.untimed = d.tw[len(d.plain):]
        # jitter: one draw per retry timer, in order
        rt = [self.timers[t] for t in d.plain if self.timers[t]["kind"] == "retry"]
        if len(rt) == len(jit):
            for tm, j in zip(rt, jit):
                tm["jit"] = j
        for op in d.tw:
            if op.type == "PINGREQ":
                cc = self.conns[op.ci]
                cc.pings.append({"t": op.t, "seq": op.seq, "ans": None, "tid": op.timer})
        if d.lost_conn is not None:
            cl = d.lost_conn
            if cl.clean and cl.connect_called_seq is not None:
                ss = self.session(cl.addr)
                for r in ss.reqs:
                    if r.dead_after is None:
                        r.dead_after = d.seq
                # held-back QoS 0 messages have no Deferred to fail: the session is
                # over, they are expected to be dropped (C11) - never to be sent later
                ss.dead_fifo.extend(r for r in ss.fifo if not r.qos)
                ss.fifo = [r for r in ss.fifo if r.qos]

    # ------------------------------------------------------------ api start

    def _api_start(self, d, rq):
        c = self.conns[rq.ci]
        self._bind_args(rq)
        rq.state_at_call = c.state
        rq.closing_at_call = c.closing
        rq.window_at_call = c.window
        rq.timeout_at_call = c.timeout
        rq.bw_at_call = c.bw
        rq.conn_version = c.version
        apispec.classify(rq, c)
        s = self.session(c.addr)
        # refused = the Deferred came back already failed (a request can also be accepted
        # and then failed later in the same dispatch, e.g. by a second packet of the chunk)
        rq.accepted = (rq.how == "deferred") and getattr(rq, "ret_state", "pending") != "failed"
        rq.refusal = None
        if rq.how == "deferred" and getattr(rq, "ret_state", None) == "failed" and rq.fires and not rq.fires[0][1]:
            rq.refusal = rq.fires[0][2]      # (exception name, loss conn, is ValueError/TypeError)
        if rq.kind == "other":
            if rq.how == "none" and rq.args is not None and getattr(rq, "sig_ok", False):
                a = rq.args
                if rq.m == "setWindowSize":
                    c.window = a["n"]
                elif rq.m == "setTimeout":
                    c.timeout = a["timeout"]
                elif rq.m == "setBandwith":
                    c.bw = (a["bandwith"], a["factor"])
            return
        if rq.kind == "disconnect":
            return
        a = rq.args or {}
        if rq.kind == "connect":
            if rq.accepted:
                c.connects.append(rq)
                c.cur_connect = rq
                c.state = "connecting"
                c.connect_t = d.t
                if c.connect_called_seq is None:
                    c.connect_called_seq = d.seq
                c.clean = bool(a.get("cleanStart"))
                ka = a.get("keepalive")
                c.keepalive = ka if _is_int(ka) else 0
                v = a.get("version")
                c.version = rc.V31 if (isinstance(v, tuple) and v[1] == 3) else rc.V311
                rq.deadline = d.t + (c.keepalive or 10)
                # a clean CONNECT tells everybody the previous session is over
                if c.clean:
                    for ex in s.inex.values():
                        ex.clean_reconnect_since = True
            elif c.connect_called_seq is None and rq.how == "deferred":
                pass
            return
        if rq.kind in ("subscribe", "unsubscribe"):
            same = [r for r in s.reqs if r.kind == rq.kind and r.open]
            rq.n_pending_same = len(same)
            rq.older_pending = any(r.ci != rq.ci for r in same)
        if not rq.accepted:
            return
        s.reqs.append(rq)
        if rq.kind == "publish":
            rq.qos = a.get("qos")
            pl = a.get("message")
            rq.payload = bytes(pl) if isinstance(pl, bytearray) else (pl.encode("utf-8") if isinstance(pl, str) else None)
            rq.topic = a.get("topic")
            rq.retain = bool(a.get("retain"))
            s.fifo.append(rq)
            if rq.qos and rq.qos > 0:
                self._register_id(d, s, "pub", rq)
            else:
                rq.ended = d.seq
                rq.end_why = "qos0"
        elif rq.kind == "subscribe":
            t = a.get("topics")
            if isinstance(t, str):
                rq.topics = [(t, a.get("qos"))]
            elif isinstance(t, tuple):
                rq.topics = [(t[0], t[1])]
            else:
                rq.topics = [tuple(x) for x in t]
            self._register_id(d, s, "sub", rq)
        elif rq.kind == "unsubscribe":
            t = a.get("topics")
            rq.topics = [t] if isinstance(t, str) else list(t)
            self._register_id(d, s, "unsub", rq)

    def _register_id(self, d, s, kc, rq):
        mid = rq.msgId
        rq.kc = kc
        if not (_is_int(mid) and 1 <= mid <= 65535):
            self.violate("C17", "I1", "msgId-range", "Deferred.msgId=%r not in 1..65535 (%s)" % (mid, rq.kind))
            self.violate("C05" if kc == "pub" else "C07", "P5" if kc == "pub" else "S2", "msgId-missing",
                         "Deferred.msgId=%r" % (mid,))
            return
        self.ids = getattr(self, "ids", {})
        old = self.ids.get(mid)
        if old is not None and old.open and not _dying(old, d):
            self.probe("id_collision")
            self.violate("C17", "I2", "%s-vs-%s" % (rq.kind, old.kind),
                         "identifier %d given to %s rid=%d while %s rid=%d (%s, addr %s) is unfinished"
                         % (mid, rq.kind, rq.rid, old.kind, old.rid, old.stage(), old.addr))
            if old.kind == "publish" and old.qos == 2 and old.rel_tx and rq.kind == "publish":
                self.violate("C09", "Q2", "identifier-reused-before-PUBCOMP",
                             "identifier %d, whose PUBREL is written and whose PUBCOMP is outstanding, is given to a new PUBLISH (rid=%d)"
                             % (mid, rq.rid))
            # attribution by id is ambiguous from here on
            self.taint_why("collision")
            self.taint("C05", "C07", "C08", "C09", "C10", "C11", "C12", "C13", "C02", "C19")
        self.ids[mid] = rq
        s.by_id[(kc, mid)] = rq

    # ---------------------------------------------------------------- fires

    def _on_fire(self, d, rid, ok, val):
        rq = self.reqs.get(rid)
        if rq is None:
            return
        if rq.kind == "connect":
            return
        if not rq.accepted:
            return
        if rq.kind == "publish" and not rq.qos:
            return
        rq.ended = d.seq
        rq.end_why = "ok" if ok else "failed"
        s = self.session(rq.addr)
        kc = getattr(rq, "kc", None)
        if kc is not None and _is_int(rq.msgId):
            if s.by_id.get((kc, rq.msgId)) is rq:
                del s.by_id[(kc, rq.msgId)]
            s.done_by_id[(kc, rq.msgId)] = rq
        if rq in s.fifo:
            s.fifo.remove(rq)

    # ----------------------------------------------------------------- writes

    def _on_out(self, d, op, cur):
        c = self.conns[op.ci]
        s = self.session(c.addr)
        p = op.pkt
        if p is None:
            if op.type in TIMER_WORTHY or op.type == "PUBLISH":
                d.tw.append(op)      # keep timer attribution aligned even for unparseable packets
            return
        t = op.type
        if t == "CONNECT":
            c.n_connect_pkts += 1
            op.req = cur if (cur is not None and cur.kind == "connect") else None
            d.tw.append(op)
        elif t == "PINGREQ":
            d.tw.append(op)
        elif t == "DISCONNECT":
            if not c.disconnect_written:
                c.disconnect_written = d.seq
                c.disconnect_n = op.n
        elif t == "PUBLISH":
            self._out_publish(d, c, s, op, p)
        elif t == "PUBREL":
            rq = s.by_id.get(("pub", p.get("id")))
            if rq is not None and rq.qos == 2:
                op.req = rq
                op.first = not rq.rel_tx
                if op.first:
                    rq.rel_timeout0 = c.timeout
                rq.rel_tx.append(op)
                d.tw.append(op)
                (d.first_tx if op.first else d.retx).append(op)
            else:
                op.req = s.done_by_id.get(("pub", p.get("id")))
                d.stale_tx.append(op)
                d.tw.append(op)
        elif t in ("SUBSCRIBE", "UNSUBSCRIBE"):
            kc = "sub" if t == "SUBSCRIBE" else "unsub"
            rq = s.by_id.get((kc, p.get("id")))
            if rq is not None:
                op.req = rq
                op.first = not rq.tx
                if op.first:
                    rq.timeout0 = c.timeout
                    rq.first_ci = c.ci
                rq.tx.append(op)
                d.tw.append(op)
                (d.first_tx if op.first else d.retx).append(op)
            else:
                op.req = s.done_by_id.get((kc, p.get("id")))
                d.stale_tx.append(op)
                d.tw.append(op)

    def _out_publish(self, d, c, s, op, p):
        qos = p["qos"]
        if qos == 0:
            def same(r):
                return (not r.qos) and r.topic == p["topic"] and r.payload == p["payload"] \
                    and r.retain == p["retain"]
            live = [r for r in s.fifo if not _dying(r, d)]
            if live and same(live[0]):
                rq = live[0]
                s.fifo.remove(rq)
                op.in_order = True
            else:
                rq = None
                for r in s.dead_fifo:
                    if same(r):
                        rq = r
                        s.dead_fifo.remove(r)
                        break
                if rq is None:
                    for r in s.fifo:
                        if same(r):
                            rq = r
                            break
                    if rq is not None:
                        s.fifo.remove(rq)
                        op.in_order = False
                        op.jumped = True
            if rq is None:
                d.stale_tx.append(op)
                return
            op.req = rq
            op.first = True
            rq.tx.append(op)
            rq.first_ci = c.ci
            d.first_tx.append(op)
            return
        rq = s.by_id.get(("pub", p.get("id")))
        if rq is None or rq.qos != qos:
            op.req = s.done_by_id.get(("pub", p.get("id")))
            d.stale_tx.append(op)
            d.tw.append(op)
            return
        op.req = rq
        d.tw.append(op)
        if not rq.tx:
            op.first = True
            live = [r for r in s.fifo if not _dying(r, d)]
            op.jumped = not (live and live[0] is rq)
            if rq in s.fifo:
                s.fifo.remove(rq)
            rq.timeout0 = min(c.timeout, getattr(rq, "timeout_at_call", c.timeout))
            rq.first_ci = c.ci
            rq.tx.append(op)
            d.first_tx.append(op)
            op.inflight = sum(1 for r in s.reqs if r.kind == "publish" and r.qos and r.open
                              and r.tx and r.ack1 is None and not _dying(r, d))
            op.window = c.window
        else:
            rq.tx.append(op)
            d.retx.append(op)

    # ---------------------------------------------------------------- inbound

    def _on_in(self, d, fr):
        c = d.conn
        s = self.session(c.addr)
        fx = {"fr": fr, "tag": None, "req": None, "ex": None, "state": c.state}
        d.frame_fx.append(fx)
        if c.closing == "lose" and c.state != "lost":
            # disconnect() was called earlier in this very chunk: the rest of the chunk is
            # read by a protocol that is closing; nothing of it may have an effect (C14)
            fx["tag"] = "foreign"
            fx["state"] = "closing"
            return
        if c.closing == "abort":
            fx["after_abort"] = True     # effects of later packets are not judged (either way is fine)
        if not fr.ok:
            fx["tag"] = "malformed"
            c.had_malformed = True
            if getattr(fr.err, "ambiguous", False):
                c.had_ambiguous = True      # accepted or refused: both are fine (C16.X3 stands back)
            self.taint_why("malformed")
            # how the client read a malformed packet cannot be known from outside:
            # from here on only the properties that do not depend on the protocol
            # state keep being judged in this run
            self.taint("C04", "C05", "C06", "C07", "C08", "C09", "C10", "C11", "C12", "C13", "C14", "C15",
                       "C19", "C20")
            return
        p = fr.pkt
        t = p["type"]
        prof = c.profile
        if c.state == "connecting":
            if t == "CONNACK":
                fx["req"] = c.cur_connect
                if p["rc"] == 0:
                    fx["tag"] = "connack-ok"
                    c.state = "connected"
                    c.connack_seq = d.seq
                    c.connack_t = d.t
                    if c.clean:
                        # a clean CONNACK discards what earlier connections left behind;
                        # carried-over QoS 0 messages may be dropped or sent, the
                        # properties do not say
                        opt = [r for r in s.fifo if not r.qos and r.ci != c.ci]
                        if opt:
                            s.dead_fifo.extend(opt)
                            s.fifo = [r for r in s.fifo if r not in opt]
                else:
                    fx["tag"] = "connack-refused"
                    c.state = "refused"
                d.connack = fx
                d.connacks.append(fx)
            else:
                fx["tag"] = "foreign"
            return
        if c.state != "connected":
            fx["tag"] = "foreign"
            return
        mid = p.get("id")
        if t == "CONNACK":
            fx["tag"] = "foreign"
        elif t == "PINGRESP":
            fx["tag"] = "pingresp-extra"
            for pg in c.pings:
                if pg["ans"] is None:
                    pg["ans"] = d.t
                    pg["ans_seq"] = d.seq
                    fx["tag"] = "pingresp-ok"
                    fx["ping"] = pg
                    break
        elif t in ("PUBACK", "PUBREC", "PUBCOMP"):
            if not (prof & PUB):
                fx["tag"] = "foreign"
                return
            rq = s.by_id.get(("pub", mid))
            fx["tag"] = "ack-noeffect"
            if rq is not None and rq.tx and rq.open and ((t == "PUBACK") != (rq.qos == 1)):
                # acknowledgement type does not fit the exchange using this id: outside
                # every property's quantifier (I7); the ledger may diverge from here
                fx["tag"] = "ack-misfit"
                self.probe("ack_misfit")
                self.taint_why("misfit")
                self.taint("C05", "C08", "C09", "C10", "C11", "C12", "C13", "C16", "C19")
                return
            if rq is not None and rq.tx and rq.open:
                if t == "PUBACK" and rq.qos == 1 and rq.ack1 is None:
                    rq.ack1 = d.seq
                    fx["tag"] = "puback-done"
                    fx["req"] = rq
                elif t == "PUBREC" and rq.qos == 2 and rq.ack1 is None:
                    rq.ack1 = d.seq
                    fx["tag"] = "pubrec-first"
                    fx["req"] = rq
                elif t == "PUBCOMP" and rq.qos == 2 and rq.ack1 is not None and rq.ack2 is None:
                    rq.ack2 = d.seq
                    fx["tag"] = "pubcomp-done"
                    fx["req"] = rq
        elif t in ("SUBACK", "UNSUBACK"):
            if not (prof & SUB):
                fx["tag"] = "foreign"
                return
            kc = "sub" if t == "SUBACK" else "unsub"
            rq = s.by_id.get((kc, mid))
            fx["tag"] = "ack-noeffect"
            if rq is not None and rq.tx and rq.open and rq.ack1 is None:
                rq.ack1 = d.seq
                fx["tag"] = "suback-done" if kc == "sub" else "unsuback-done"
                fx["req"] = rq
        elif t == "PUBLISH":
            if not (prof & SUB):
                fx["tag"] = "foreign"
                return
            q = p["qos"]
            fx["tag"] = "publish-q%d" % q
            if q == 2:
                ex = s.inex.get(mid)
                if ex is None or ex.clean_reconnect_since:
                    # (after a clean CONNECT the broker has forgotten the old exchange:
                    # a PUBLISH with that id starts a new one)
                    ex = s.inex[mid] = InEx(mid, d.seq)
                ex.copies.append(p)
                fx["ex"] = ex
        elif t == "PUBREL":
            if not (prof & SUB):
                fx["tag"] = "foreign"
                return
            ex = s.inex.get(mid)
            if ex is not None and ex.copies and not ex.delivered:
                fx["tag"] = "pubrel-first"
                fx["ex"] = ex
                ex.delivered = 1
                del s.inex[mid]
            else:
                fx["tag"] = "pubrel-repeat"
        else:
            fx["tag"] = "foreign"

    # ------------------------------------------------------- abstract states

    def _abstract(self, d):
        c = d.conn
        if c is None:
            return
        s = self.session(c.addr)
        npend1 = npend2 = nsub = nunsub = 0
        for r in s.reqs:
            if not r.pending:
                continue
            if r.kind == "publish":
                if r.tx and r.ack1 is None:
                    npend1 += 1
                elif r.ack1 is not None:
                    npend2 += 1
            elif r.kind == "subscribe":
                nsub += 1
            elif r.kind == "unsubscribe":
                nunsub += 1
        nt = len(self.alive)
        st = (c.profile, c.state, c.closing, c.clean, c.keepalive > 0, min(len(s.fifo), 3), min(npend1, 3),
              min(npend2, 3), min(nsub, 2), min(nunsub, 2), min(len(s.inex), 2), min(nt, 5))
        what = d.kind
        if d.kind == "api" and d.apis:
            what = "api:" + d.apis[0].m
        elif d.kind == "data" and d.frames:
            what = "data:" + d.frames[0].type
        elif d.kind == "timer" and d.fired:
            what = "timer:" + d.fired["kind"]
        self.states.add(st)
        self.trans.add((getattr(self, "_prev_state", None), what, st))
        self._prev_state = st
