"""Publisher-side rules: C05 (publish Deferred), C08 (retransmission),
C09 (QoS 2 sender order), C10 (window / FIFO / nothing stranded) and the
timer half of C13."""
from sim.rules_wire import Rule
from sim import refcodec as rc

EPS = 1e-6
PUBB = 2


def _up(c):
    return c is not None and c.state in ("connecting", "connected") and c.closing is None


class PublishRules(Rule):
    def after(self, d):
        L = self.L
        # ---- C05 P2: QoS 0 already succeeded with None when publish() returns
        for rq in d.apis:
            if rq.kind == "publish" and rq.accepted and rq.qos == 0:
                if not any(f[0] == d.seq and f[1] and f[2] is None for f in rq.fires):
                    L.violate("C05", "P2", "qos0", "QoS 0 publish rid=%d did not come back succeeded with None" % rq.rid)
            # ---- C10 F2: a valid, allowed publish is accepted whatever the window
            if rq.kind == "publish" and getattr(rq, "valid", False) and getattr(rq, "allowed", False) \
                    and getattr(rq, "judged", False) and not rq.accepted:
                why = rq.exc or (rq.fires[0][2][0] if rq.fires and rq.fires[0][2] else rq.how)
                if why == "MQTTWindowError" or rq.how != "deferred":
                    L.violate("C10", "F2", "publish-rejected:%s" % why,
                              "publish rid=%d rejected (%s) though valid and allowed" % (rq.rid, why))
        # ---- C05 P3/P4/P5: a success needs its acknowledgement, in this dispatch
        for (rid, ok, val) in d.fires:
            rq = L.reqs.get(rid)
            if rq is None or rq.kind != "publish" or not rq.accepted or not rq.qos:
                continue
            if not ok:
                cause = (d.kind == "lost" and d.lost_conn is not None and d.lost_conn.addr == rq.addr) or \
                        any(fx["tag"] == "connack-ok" for fx in d.connacks if d.conn is not None and d.conn.addr == rq.addr and d.conn.clean)
                if not cause:
                    L.violate("C05", "P1", "failed-without-cause:%s" % d.kind,
                              "publish rid=%d on %s failed (%s) in a %s dispatch that is neither a loss of that address nor a clean-session CONNACK"
                              % (rid, rq.addr, val[0] if val else "?", d.kind))
                    if rq.qos == 2 and rq.tx:
                        L.violate("C09", "Q3", "given-up:%s" % d.kind,
                                  "QoS 2 exchange id %r was given up (%s) in a %s dispatch: neither PUBCOMP nor a discarded session ended it"
                                  % (rq.msgId, val[0] if val else "?", d.kind))
                continue
            if rq.qos == 1:
                if rq.ack1 != d.seq:
                    L.violate("C05", "P3", "success-without-PUBACK",
                              "QoS 1 publish rid=%d succeeded in a dispatch that delivered no PUBACK for id %r" % (rid, rq.msgId))
            elif rq.qos == 2:
                if rq.ack2 != d.seq or rq.ack1 is None:
                    L.violate("C05", "P4", "success-without-PUBCOMP" if rq.ack1 is not None else "success-without-PUBREC",
                              "QoS 2 publish rid=%d succeeded without PUBREC-then-PUBCOMP for id %r" % (rid, rq.msgId))
                    L.violate("C09", "Q3", "ended-early", "QoS 2 exchange id %r ended before PUBCOMP" % (rq.msgId,))
            if val != rq.msgId:
                L.violate("C05", "P5", "callback-value", "publish rid=%d callback value %r != msgId %r" % (rid, val, rq.msgId))
        # ---- acks that complete an exchange must fire it (same dispatch)
        if d.kind == "data" and not d.desync and not (d.coarse and len(d.frame_fx) > 1):
            for fx in d.frame_fx:
                tag = fx["tag"]
                rq = fx["req"]
                if tag in ("puback-done", "pubcomp-done") and not fx.get("after_abort"):
                    if not any(f[0] == d.seq for f in rq.fires):
                        if not d.excs:
                            L.violate("C05", "P7", "ack-without-success:%s" % tag,
                                      "%s for id %r delivered but the Deferred of rid=%d did not fire" % (tag, rq.msgId, rq.rid))
            # ---- C05 P6: duplicate / late / unknown acks change nothing
            tags = [fx["tag"] for fx in d.frame_fx]
            if tags and all(t == "ack-noeffect" for t in tags) and d.conn is not None and (d.conn.profile & PUBB):
                kinds = set(fx["fr"].type for fx in d.frame_fx)
                if kinds <= {"PUBACK", "PUBREC", "PUBCOMP"}:
                    L.probe("noeffect_pub_ack")
                    if not d.effect_free():
                        L.violate("C05", "P6", "effect:%s" % _effects(d),
                                  "duplicate/late/unknown %s had effects: %s" % (sorted(kinds), _effects(d)))
        # ---- C09
        for op in d.writes:
            if op.type == "PUBREL":
                rq = op.req
                if rq is None:
                    L.violate("C09", "Q1", "PUBREL-unknown-id", "PUBREL id %r written for no known exchange" % (op.pkt or {}).get("id"))
                elif rq.pending and (rq.ack1 is None or rq.ack1 > op.seq):
                    L.violate("C09", "Q1", "PUBREL-before-PUBREC", "PUBREL id %r written before any PUBREC was received" % rq.msgId)
            elif op.type == "PUBLISH" and op.req is not None and op.req.qos == 2 and not op.first:
                rq = op.req
                rel = rq.rel_tx[0] if rq.rel_tx else None
                before = rel is not None and (rel.seq < op.seq or (rel.seq == op.seq and rel.ci == op.ci and rel.n < op.n))
                if rq.pending and before:
                    L.probe("publish_after_pubrel")
                    L.violate("C09", "Q2", "PUBLISH-after-PUBREL:%s" % d.kind,
                              "PUBLISH id %r written again (dispatch %s) after its PUBREL had been written" % (rq.msgId, d.kind))
        # ---- C10 F1 / F3
        for op in d.first_tx:
            if op.type != "PUBLISH":
                continue
            if getattr(op, "jumped", False):
                L.violate("C10", "F3", "order", "PUBLISH of rid=%d first transmitted out of publish() order" % op.req.rid)
            if op.req.qos and getattr(op, "inflight", 0) > getattr(op, "window", 99):
                L.violate("C10", "F1", "window-exceeded", "%d QoS>0 publishes await their first ack, window is %d"
                          % (op.inflight, op.window))
        # ---- C10 F4: nothing stranded
        for addr, s in L.sess.items():
            if not s.fifo:
                continue
            live = [c for c in L.conns.values() if c.addr == addr and c.state != "lost"]
            if not live or not _up(live[-1]):
                continue
            c = live[-1]
            if not (c.profile & PUBB):
                continue
            outstanding = any(r.pending and r.tx for r in s.reqs if r.kind == "publish" and r.qos)
            if c.state == "connecting" and s.fifo[0].ci != c.ci:
                # messages left behind by an earlier connection wait for CONNACK (C12: nothing
                # carried over is written before it), and FIFO order keeps later ones behind them
                continue
            if not outstanding:
                L.probe("stranded")
                L.violate("C10", "F4", "stranded:%s" % c.state,
                          "%d accepted message(s) unsent on %s while the connection is up (%s) and no QoS>0 exchange is outstanding"
                          % (len(s.fifo), addr, c.state))
        # ---- C13 T1: nothing is written for a settled request
        for op in d.stale_tx:
            rq = op.req
            L.probe("write_for_settled")
            L.violate("C13", "T1", "%s:%s:%s" % (op.type, "settled" if rq is not None else "unattributable", d.kind),
                      "%s id %r written (dispatch %s) but %s" % (op.type, (op.pkt or {}).get("id"), d.kind,
                      ("request rid=%d was already %s" % (rq.rid, rq.end_why)) if rq is not None else "no request owns it"))
            if rq is not None and rq.kind == "publish" and rq.qos == 2 and op.type in ("PUBLISH", "PUBREL") and rq.ack2 is not None:
                L.violate("C09", "Q2", "%s-after-PUBCOMP:%s" % (op.type, d.kind),
                          "%s id %r written (dispatch %s) after PUBCOMP had ended that exchange" % (op.type, rq.msgId, d.kind))
        # ---- C11 L2 (here because attribution lives here): nothing of a dead session is written
        for op in d.writes:
            rq = op.req
            if rq is not None and rq.kind in ("publish", "subscribe", "unsubscribe") \
                    and rq.dead_after is not None and op.seq > rq.dead_after:
                L.probe("carried_over_after_clean_loss")
                L.violate("C11", "L2", "%s:%s" % (op.type, "qos0" if (op.type == "PUBLISH" and not rq.qos) else "qos>0/req"),
                          "%s of rid=%d (requested on conn %d) written on conn %d after the clean session of conn %d ended"
                          % (op.type, rq.rid, rq.ci, op.ci, rq.ci))

    def finish(self):
        L = self.L
        if not getattr(L, "drained", False):
            return
        for rq in L.reqs.values():
            if rq.kind == "publish" and rq.accepted and rq.qos and rq.pending:
                L.violate("C05", "P7", "never-settled:%s" % rq.stage(),
                          "publish rid=%d (%s) still pending after the broker answered everything" % (rq.rid, rq.stage()),
                          despite=("collision",))
                if rq.stage() == "held":
                    L.violate("C10", "F4", "never-sent", "publish rid=%d never transmitted" % rq.rid)
        for s in L.sess.values():
            for rq in s.fifo:
                if not rq.qos and rq.dead_after is None:
                    L.violate("C10", "F4", "qos0-never-sent", "QoS 0 publish rid=%d never transmitted" % rq.rid)


def _effects(d):
    out = []
    if d.raw_writes:
        out.append("write")
    if d.timers_new:
        out.append("timer-armed")
    if d.timers_cancel:
        out.append("timer-cancelled")
    if d.fires:
        out.append("deferred-fired")
    if d.cbs:
        out.append("callback")
    if d.xcalls:
        out.append("close")
    if d.excs:
        out.append("exception:" + d.excs[0][1])
    return "+".join(out)


class RetxRules(Rule):
    """C08 and C13 T2."""

    def after(self, d):
        L = self.L
        # R7
        if d.kind == "timer" and d.excs:
            k = d.fired["kind"] if d.fired else "?"
            pk = d.fired["pkt"].type if (d.fired and d.fired.get("pkt")) else "-"
            L.violate("C08", "R7", "%s:%s:%s" % (k, pk, d.excs[0][1]), "exception escaped a %s timer (%s): %s %s"
                      % (k, pk, d.excs[0][1], d.excs[0][2]))
        # R1: expiry of the live retry timer of an unacknowledged packet re-sends it
        if d.kind == "timer" and d.fired and d.fired["kind"] == "retry" and d.fired.get("pkt") is not None:
            tm = d.fired
            op = tm["pkt"]
            rq = op.req
            c = L.conns.get(op.ci)
            if rq is not None and rq.pending and _up(c):
                seqlist = rq.rel_tx if op.type == "PUBREL" else rq.tx
                prior = [x for x in seqlist if x.seq < d.seq]
                is_last = bool(prior) and prior[-1] is op
                if op.type == "PUBLISH":
                    waiting = rq.ack1 is None
                elif op.type == "PUBREL":
                    waiting = rq.ack2 is None
                else:
                    waiting = rq.ack1 is None
                if is_last and waiting:
                    L.probe("expiry_unacked_%s" % op.type)
                    nth = len(prior)
                    if nth >= 5:
                        L.probe("consecutive_expiry_ge5")
                    again = [x for x in d.retx if x.req is rq and x.type == op.type]
                    if not again:
                        L.violate("C08", "R1", "not-resent:%s" % op.type,
                                  "%s id %r: retry timer expired unacknowledged but it was not written again" % (op.type, rq.msgId))
                    elif again[0].timer is None:
                        L.violate("C08", "R1", "chain-ends:%s" % op.type,
                                  "%s id %r re-sent without arming a new retry timer" % (op.type, rq.msgId))
                elif not is_last and (d.retx or d.first_tx):
                    for x in d.retx:
                        if x.req is rq:
                            L.violate("C13", "T2", "resent-by-stale-timer:%s" % x.type,
                                      "%s id %r re-sent by a stale timer (armed for an earlier transmission)" % (x.type, rq.msgId))
        # a retry timer cancelled although its packet stays unacknowledged on a connection that is up
        for tid in d.timers_cancel:
            tm = L.timers.get(tid)
            if tm is None or tm["kind"] != "retry" or tm.get("pkt") is None:
                continue
            op = tm["pkt"]
            rq = op.req
            c = L.conns.get(op.ci)
            if rq is None or not rq.pending or not _up(c) or d.excs:
                continue
            seqlist = rq.rel_tx if op.type == "PUBREL" else rq.tx
            if not seqlist or seqlist[-1] is not op:
                continue        # a newer transmission (with its own timer) took over
            if op.type == "PUBLISH":
                waiting = rq.ack1 is None
            elif op.type == "PUBREL":
                waiting = rq.ack2 is None
            else:
                waiting = rq.ack1 is None
            if waiting and not (c.connack_seq is not None and rq.ci != c.ci and d.seq <= c.connack_seq):
                L.probe("retry_timer_cancelled_unacked")
                L.violate("C08", "R1", "timer-cancelled-unacked:%s:%s" % (op.type, d.kind),
                          "%s id %r: its retry timer was cancelled in a %s dispatch although it is unacknowledged and conn %d is up"
                          % (op.type, rq.msgId, d.kind, c.ci))
        # transmissions that arm no timer
        for op in d.untimed:
            c = L.conns.get(op.ci)
            if op.type in ("PUBLISH", "PUBREL", "SUBSCRIBE", "UNSUBSCRIBE") and op.req is not None and op.req.pending and _up(c):
                L.violate("C08", "R1", "no-timer:%s" % op.type, "%s id %r transmitted without a retry timer" % (op.type, op.req.msgId))
        for op in d.retx:
            self._retx(d, op)
        for op in d.first_tx:
            rq = op.req
            if op.type == "PUBLISH" and rq.qos and op.pkt.get("dup"):
                L.violate("C08", "R3", "first-PUBLISH-dup", "first transmission of PUBLISH id %r carries DUP" % rq.msgId)
                if rq.ci != op.ci:
                    L.violate("C12", "M3", "held-back-released-with-DUP",
                              "publish rid=%d, only held back by the earlier connection, is first transmitted with DUP=1" % rq.rid)
            if op.type != "PUBLISH" and op.pkt.get("dup"):
                L.violate("C08", "R3", "first-%s-dup" % op.type, "first transmission of %s id %r carries DUP" % (op.type, rq.msgId))
        # R5 (scheduled) for every retry timer armed now
        for tid in d.plain:
            tm = L.timers[tid]
            if tm["kind"] != "retry" or tm["pkt"] is None or tm["pkt"].req is None:
                continue
            op = tm["pkt"]
            rq = op.req
            t0 = rq.rel_timeout0 if op.type == "PUBREL" else rq.timeout0
            if t0 is None:
                continue
            delay = tm["due"] - tm["t0"]
            if delay < t0 - EPS:
                L.violate("C08", "R5", "scheduled-short:%s" % op.type,
                          "%s id %r: retry scheduled after %.4f s, initial timeout %s" % (op.type, rq.msgId, delay, t0))
            # R6: the jitter-free part of a PUBLISH's delays does not shrink
            if op.type == "PUBLISH" and tm["jit"] is not None:
                base = delay - tm["jit"]
                prev = getattr(rq, "_last_base", None)
                if prev is not None and prev[1] == op.ci and base < prev[0] - 1e-5:
                    fac = getattr(rq, "bw_at_call", (0, 2))[1]
                    L.violate("C08", "R6", "gap-shrinks:factor%s1" % ("<" if fac < 1 else ">="),
                              "PUBLISH id %r: retry delay (jitter removed) shrank from %.5f to %.5f" % (rq.msgId, prev[0], base))
                rq._last_base = (base, op.ci)
        # C13 T2: a single retry timer per unacknowledged packet
        seen = {}
        for tm in L.alive.values():
            if tm["alive"] and tm["kind"] == "retry" and tm["req"] is not None and tm["req"].pending:
                seen.setdefault(tm["req"].rid, []).append(tm)
        for rid, lst in seen.items():
            if len(lst) > 1:
                L.probe("two_timers_one_request")
                L.violate("C13", "T2", "two-timers:%s" % "+".join(sorted(t["pkt"].type for t in lst)),
                          "request rid=%d has %d live retry timers" % (rid, len(lst)))
        for tid in d.extra_timers:
            tm = L.timers[tid]
            L.violate("C13", "T2", "unattributed-timer:%s" % d.kind,
                      "a timer was armed in a %s dispatch that no transmitted packet accounts for" % d.kind)

    def _retx(self, d, op):
        L = self.L
        rq = op.req
        if rq is None or op.pkt is None:
            return
        seqlist = rq.rel_tx if op.type == "PUBREL" else rq.tx
        i = seqlist.index(op)
        first = seqlist[0]
        prev = seqlist[i - 1]
        p, f = op.pkt, first.pkt
        if f is None:
            return
        # R2 same content
        for k in ("id", "topic", "topics", "payload", "qos", "retain"):
            if p.get(k) != f.get(k):
                L.violate("C08", "R2", "%s:%s" % (op.type, k), "repeat of %s id %r differs in %s" % (op.type, rq.msgId, k))
        # R3 flags
        c = L.conns[op.ci]
        if op.type == "PUBLISH":
            if not p.get("dup"):
                L.violate("C08", "R3", "repeat-PUBLISH-nodup", "repeat of PUBLISH id %r without DUP" % rq.msgId)
                L.violate("C02", "W2", "repeat-PUBLISH-nodup", "re-delivered PUBLISH id %r (QoS %s) does not carry DUP=1 [MQTT-3.3.1-1]"
                          % (rq.msgId, rq.qos))
                L.violate("C12", "M2", "resume-nodup", "repeat of PUBLISH id %r without DUP" % rq.msgId)
        else:
            if c.version == rc.V31 and not p.get("dup"):
                L.violate("C08", "R3", "repeat-%s-nodup-v31" % op.type, "3.1 repeat of %s id %r without DUP" % (op.type, rq.msgId))
            if c.version == rc.V311 and (p.get("dup") or (op.raw[0] & 0x08)):
                L.violate("C08", "R3", "repeat-%s-dup-v311" % op.type, "3.1.1 repeat of %s id %r carries DUP" % (op.type, rq.msgId))
        # R4 only on expiry or on resume
        if prev.ci == op.ci:
            if d.kind != "timer":
                L.probe("retx_outside_timer")
                L.violate("C08", "R4", "retx-outside-timer:%s:%s" % (op.type, d.kind),
                          "%s id %r repeated in a %s dispatch on the connection it was last sent on" % (op.type, rq.msgId, d.kind))
            # R5 actual spacing
            t0 = rq.rel_timeout0 if op.type == "PUBREL" else rq.timeout0
            if t0 is not None and op.t - prev.t < t0 - EPS:
                L.violate("C08", "R5", "spacing:%s" % op.type, "%s id %r repeated after %.4f s, initial timeout %s"
                          % (op.type, rq.msgId, op.t - prev.t, t0))
        else:
            L.probe("resume_%s" % op.type)
            if c.connack_seq is None or d.seq < c.connack_seq:
                L.violate("C08", "R4", "resume-before-CONNACK:%s" % op.type,
                          "%s id %r of an earlier connection written before CONNACK" % (op.type, rq.msgId))
                L.violate("C12", "M2", "resume-before-CONNACK:%s" % op.type,
                          "%s id %r of an earlier connection written before CONNACK" % (op.type, rq.msgId))
