"""Subscriber-side rules: C06 (inbound PUBLISH handling) and C07
(subscribe / unsubscribe requests)."""
from sim.rules_wire import Rule
from sim.rules_pub import _effects

SUBB = 1
ACKS = ("PUBACK", "PUBREC", "PUBCOMP")


class InboundRules(Rule):
    def after(self, d):
        L = self.L
        acks = [(op.type, (op.pkt or {}).get("id")) for op in d.writes if op.type in ACKS and op.ci == d.ci]
        other_acks = [(op.type, op.ci) for op in d.writes if op.type in ACKS and op.ci != d.ci]
        cbs = [x[2] for x in d.cbs if x[1] == "onPublish"]
        if other_acks:
            L.violate("C06", "D5", "ack-on-other-connection", "acknowledgement written on another connection: %r" % (other_acks,))
        if d.kind != "data":
            for a in acks:
                L.violate("C06", "D5", "unprompted:%s:%s" % (a[0], d.kind), "%s id %r written in a %s dispatch" % (a[0], a[1], d.kind))
            for cb in cbs:
                L.violate("C06", "D1", "delivery-outside-data:%s" % d.kind, "onPublish called in a %s dispatch" % d.kind)
            return
        c = d.conn
        if d.desync or any(fx["tag"] == "malformed" for fx in d.frame_fx):
            return
        if d.excs or (d.coarse and len(d.frame_fx) > 1):
            return
        # (an abort in a dispatch whose packets are all well-formed excuses nothing:
        # a well-formed PUBLISH must be delivered and answered)
        if c is None or not (c.profile & SUBB):
            return
        handler = bool(L.w.conns[c.ci].handlers.get("onPublish"))
        exp_acks = []
        exp_cbs = []   # (topic, payload_hex, qos, dups(set), retain, id, optional)
        for fx in d.frame_fx:
            tag = fx["tag"]
            p = fx["fr"].pkt
            if tag == "publish-q0":
                exp_cbs.append((p["topic"], p["payload"].hex(), 0, {p["dup"]}, p["retain"], None, False))
            elif tag == "publish-q1":
                exp_acks.append(("PUBACK", p["id"]))
                exp_cbs.append((p["topic"], p["payload"].hex(), 1, {p["dup"]}, p["retain"], p["id"], False))
            elif tag == "publish-q2":
                exp_acks.append(("PUBREC", p["id"]))
                L.probe("in_q2_publish")
                if len(fx["ex"].copies) > 1:
                    L.probe("in_q2_repeated_publish")
            elif tag == "pubrel-first":
                ex = fx["ex"]
                p0 = ex.copies[0]
                exp_acks.append(("PUBCOMP", p["id"]))
                # (I8) if the broker sent copies that differ - which only a broker re-using the
                # identifier of an open exchange does - the content of any copy is acceptable
                alts = [(x["topic"], x["payload"].hex(), x["retain"]) for x in ex.copies[1:]
                        if (x["topic"], x["payload"], x["retain"]) != (p0["topic"], p0["payload"], p0["retain"])]
                exp_cbs.append((p0["topic"], p0["payload"].hex(), 2, set(x["dup"] for x in ex.copies), p0["retain"],
                                p0["id"], ex.clean_reconnect_since, alts))
                L.probe("in_q2_release")
                if ex.seq < (c.connack_seq or 0):
                    L.probe("in_q2_release_across_reconnect")
            elif tag == "pubrel-repeat":
                exp_acks.append(("PUBCOMP", p["id"]))
                L.probe("in_pubrel_repeat_or_unknown")
        # ---- acknowledgements: same multiset, same order
        if acks != exp_acks:
            miss = list(exp_acks)
            extra = []
            for a in acks:
                if a in miss:
                    miss.remove(a)
                else:
                    extra.append(a)
            for a in miss:
                rule = {"PUBACK": "D2", "PUBREC": "D3", "PUBCOMP": "D4"}[a[0]]
                L.violate("C06", rule, "missing-%s" % a[0], "inbound packet not answered: expected %s id %r (got %r)" % (a[0], a[1], acks))
            for a in extra:
                L.violate("C06", "D5", "unjustified-%s" % a[0], "%s id %r written though nothing received asks for it" % (a[0], a[1]))
            if not miss and not extra:
                L.violate("C06", "D5", "ack-order", "acknowledgements out of order: %r vs %r" % (acks, exp_acks))
        # ---- deliveries
        if not handler:
            return
        i = 0
        for cb in cbs:
            # skip optional expectations that do not match
            while i < len(exp_cbs) and exp_cbs[i][6] and not _cb_match(cb, exp_cbs[i]):
                i += 1
            if i >= len(exp_cbs):
                L.violate("C06", "D3" if (len(cb) > 2 and cb[2] == 2) else "D1", "extra-delivery:qos%s" % (cb[2] if len(cb) > 2 else "?"),
                          "onPublish%r not justified by what was received" % (cb,))
                return
            if not _cb_match(cb, exp_cbs[i]):
                e = exp_cbs[i]
                L.violate("C06", "D3" if e[2] == 2 else "D1", "delivery-differs:qos%d:%s" % (e[2], _cb_diff(cb, e)),
                          "onPublish%r differs from received %r" % (_short(cb), _short(e[:6])))
                L.violate("C02", "W4", "PUBLISH:delivery-differs:%s" % _cb_diff(cb, e),
                          "what reached onPublish %r differs from the fields the broker encoded %r" % (_short(cb), _short(e[:6])))
                return
            i += 1
        rest = [e for e in exp_cbs[i:] if not e[6]]
        if rest:
            e = rest[0]
            L.violate("C06", "D3" if e[2] == 2 else "D1", "missing-delivery:qos%d" % e[2],
                      "received PUBLISH %r was not delivered to onPublish" % (_short(e[:6]),))
            L.violate("C02", "W4", "PUBLISH:not-delivered:qos%d" % e[2],
                      "a well-formed PUBLISH %r never reached onPublish" % (_short(e[:6]),))

    def finish(self):
        pass


def _short(v):
    s = repr(v)
    return s if len(s) <= 160 else s[:150] + "...(%d chars)" % len(s)


def _cb_match(cb, e):
    if len(cb) != 6:
        return False
    if len(e) > 7 and e[7]:
        for (tp, pl, rt) in e[7]:
            if _cb_match(cb, (tp, pl, e[2], e[3], rt, e[5], e[6])):
                return True
    payload = cb[1]
    if not (isinstance(payload, tuple) and payload[0] == "b" and payload[1] == e[1]):
        return False
    return cb[0] == e[0] and cb[2] == e[2] and (cb[3] in e[3]) and isinstance(cb[3], bool) \
        and cb[4] == e[4] and isinstance(cb[4], bool) and cb[5] == e[5]


def _cb_diff(cb, e):
    if len(cb) != 6:
        return "arity"
    names = ["topic", "payload", "qos", "dup", "retain", "id"]
    out = []
    if cb[0] != e[0]:
        out.append("topic")
    if not (isinstance(cb[1], tuple) and cb[1][0] == "b" and cb[1][1] == e[1]):
        out.append("payload")
    if cb[2] != e[2]:
        out.append("qos")
    if cb[3] not in e[3] or not isinstance(cb[3], bool):
        out.append("dup")
    if cb[4] != e[4] or not isinstance(cb[4], bool):
        out.append("retain")
    if cb[5] != e[5]:
        out.append("id")
    return "+".join(out)


class SubRequestRules(Rule):
    def after(self, d):
        L = self.L
        for rq in d.apis:
            if rq.kind not in ("subscribe", "unsubscribe"):
                continue
            PK = "SUBSCRIBE" if rq.kind == "subscribe" else "UNSUBSCRIBE"
            mine = [op for op in d.first_tx if op.req is rq]
            if rq.accepted:
                if len(mine) != 1:
                    L.violate("C07", "S1", "%s-count:%d" % (PK, len(mine)),
                              "accepted %s() rid=%d wrote %d %s packets in its dispatch" % (rq.kind, rq.rid, len(mine), PK))
            # S4 window
            n = getattr(rq, "n_pending_same", None)
            if n is None or not (rq.valid and rq.allowed and rq.judged) or getattr(rq, "older_pending", False):
                continue
            win = rq.window_at_call
            failed = rq.refusal[0] if rq.refusal else None
            if n >= win:
                L.probe("window_full_call")
                if n > win:
                    L.probe("window_shrunk_below_pending")
                if rq.accepted or failed != "MQTTWindowError":
                    L.violate("C07", "S4", "%s-accepted-beyond-window:%s" % (rq.kind, "n>w" if n > win else "n=w"),
                              "%s() accepted/failed with %r while %d requests await acknowledgement, window %d"
                              % (rq.kind, failed, n, win))
                elif any(op.req is rq for op in d.writes) or any(True for t in d.plain if L.timers[t]["req"] is rq):
                    L.violate("C07", "S4", "window-refusal-wrote", "refused %s() still wrote or armed something" % rq.kind)
            else:
                if failed == "MQTTWindowError":
                    L.violate("C07", "S4", "%s-window-error-below-window" % rq.kind,
                              "%s() failed with MQTTWindowError with %d pending, window %d" % (rq.kind, n, win))
        # S2
        for (rid, ok, val) in d.fires:
            rq = L.reqs.get(rid)
            if rq is None or rq.kind not in ("subscribe", "unsubscribe") or not rq.accepted:
                continue
            if not ok:
                # an accepted request only fails when a connection to ITS address is lost
                if not (d.kind == "lost" and d.lost_conn is not None and d.lost_conn.addr == rq.addr):
                    L.violate("C07", "S2", "failed-without-loss:%s:%s" % (rq.kind, d.kind),
                              "%s rid=%d on %s failed (%s) in a %s dispatch that is not a loss of that address"
                              % (rq.kind, rid, rq.addr, val[0] if val else "?", d.kind))
                continue
            if rq.ack1 != d.seq:
                L.violate("C07", "S2", "success-without-ack:%s" % rq.kind,
                          "%s rid=%d succeeded in a dispatch that delivered no matching acknowledgement" % (rq.kind, rid))
        if d.kind == "data" and not d.desync and not (d.coarse and len(d.frame_fx) > 1):
            for fx in d.frame_fx:
                if fx["tag"] in ("suback-done", "unsuback-done") and not fx.get("after_abort"):
                    rq = fx["req"]
                    if not any(f[0] == d.seq for f in rq.fires) and not d.excs:
                        L.violate("C07", "S2", "ack-without-success:%s" % fx["tag"],
                                  "%s for id %r delivered but rid=%d did not fire" % (fx["tag"], rq.msgId, rq.rid))
            tags = [fx["tag"] for fx in d.frame_fx]
            kinds = set(fx["fr"].type for fx in d.frame_fx)
            if tags and all(t == "ack-noeffect" for t in tags) and kinds <= {"SUBACK", "UNSUBACK"}:
                L.probe("noeffect_sub_ack")
                if not d.effect_free():
                    L.violate("C07", "S3", "effect:%s" % _effects(d), "foreign/duplicate %s had effects: %s" % (sorted(kinds), _effects(d)))

    def finish(self):
        L = self.L
        if not getattr(L, "drained", False):
            return
        for rq in L.reqs.values():
            if rq.kind in ("subscribe", "unsubscribe") and rq.accepted and rq.pending:
                L.violate("C07", "S5", "never-settled:%s:%s" % (rq.kind, "gone-connection" if L.conns[rq.ci].state == "lost" else "live"),
                          "%s rid=%d still pending after the broker answered everything (its connection: %s)"
                          % (rq.kind, rq.rid, L.conns[rq.ci].state))
