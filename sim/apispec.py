"""Independent statement of which API calls are valid (C20, C02.W5) and in
which (profile, state) they are allowed (C14) - written from the property
statements, not from the code."""

SUB, PUB = 1, 2


def _is_int(x):
    return isinstance(x, int) and not isinstance(x, bool)


def _num(x):
    return isinstance(x, (int, float)) and not isinstance(x, bool)


def _strlen_ok(s):
    return isinstance(s, str) and len(s.encode("utf-8", "surrogatepass")) <= 65535


def classify(rq, c):
    rq.invalid = []
    rq.soft = False        # arguments outside what the statements speak about: not judged
    a = rq.args
    m = rq.m
    inv = rq.invalid
    if a is None or not getattr(rq, "sig_ok", False):
        rq.soft = True
    elif m == "connect":
        cid = a["clientId"]
        if not isinstance(cid, str):
            rq.soft = True
        for k in ("clientId", "willTopic", "willMessage", "username", "password"):
            v = a[k]
            if v is None:
                continue
            if isinstance(v, str):
                if not _strlen_ok(v):
                    inv.append("%s-too-long" % k)
            else:
                rq.soft = True
        ka = a["keepalive"]
        if _is_int(ka):
            if not (0 <= ka <= 65535):
                inv.append("keepalive-range")
        else:
            rq.soft = True
        wq = a["willQoS"]
        if _is_int(wq):
            if not (0 <= wq <= 2):
                inv.append("willQoS-range")
        else:
            rq.soft = True
        v = a["version"]
        if v == ("ver", 3, "MQIsdp"):
            if isinstance(cid, str) and len(cid) > 23:
                inv.append("v31-clientid-long")
        elif v == ("ver", 4, "MQTT"):
            pass
        else:
            inv.append("version-unknown")
        if (a["willTopic"] is None) != (a["willMessage"] is None):
            inv.append("will-topic-xor-message")
        if a["password"] is not None and a["username"] is None:
            inv.append("password-without-user")
    elif m == "publish":
        q = a["qos"]
        if _is_int(q):
            if not (0 <= q <= 2):
                inv.append("qos-range")
        elif isinstance(q, float) and q not in (0.0, 1.0, 2.0):
            inv.append("qos-range")          # 2.5 is as far outside 0..2 as 3 is
        elif isinstance(q, str):
            inv.append("qos-type")
        else:
            rq.soft = True
        msg = a["message"]
        if not isinstance(msg, (str, bytearray)):
            inv.append("payload-type")
        t = a["topic"]
        if isinstance(t, str):
            if not _strlen_ok(t):
                inv.append("topic-too-long")
        else:
            rq.soft = True
    elif m == "subscribe":
        t = a["topics"]
        q = a["qos"]
        pairs = None
        if isinstance(t, str):
            pairs = [(t, q)]
        elif isinstance(t, tuple):
            if len(t) == 2 and isinstance(t[0], str):
                pairs = [t]
            else:
                rq.soft = True
        elif isinstance(t, list):
            pairs = []
            for x in t:
                if isinstance(x, (tuple, list)) and len(x) == 2 and isinstance(x[0], str):
                    pairs.append(tuple(x))
                elif isinstance(x, (tuple, list)) and len(x) == 2 and (x[0] is None or _is_int(x[0])):
                    inv.append("topics-type")        # a topic of the wrong type inside a well-formed list
                else:
                    rq.soft = True
            if not t:
                rq.soft = True
        else:
            inv.append("topics-type")
        for (tp, qq) in (pairs or []):
            if _is_int(qq):
                if not (0 <= qq <= 2):
                    inv.append("qos-range")
            else:
                rq.soft = True
            if not _strlen_ok(tp):
                inv.append("topic-too-long")         # cannot be represented (C02): ValueError, nothing written
    elif m == "unsubscribe":
        t = a["topics"]
        if isinstance(t, str):
            if not _strlen_ok(t):
                inv.append("topic-too-long")
        elif isinstance(t, list):
            if t and all(isinstance(x, str) or x is None or _is_int(x) for x in t):
                if not all(isinstance(x, str) for x in t):
                    inv.append("topics-type")
                elif not all(_strlen_ok(x) for x in t):
                    inv.append("topic-too-long")
            else:
                rq.soft = True
        else:
            inv.append("topics-type")
    elif m == "setWindowSize":
        n = a["n"]
        if _is_int(n):
            if not (1 <= n <= 16):
                inv.append("window-range")
        else:
            rq.soft = True
    elif m == "setTimeout":
        n = a["timeout"]
        if _num(n):
            if not (1 <= n <= 1024):
                inv.append("timeout-range")
        else:
            rq.soft = True
    elif m == "setBandwith":
        b, f = a["bandwith"], a["factor"]
        if _num(b) and _num(f):
            if b <= 0:
                inv.append("bandwidth-nonpositive")
            if f <= 0:
                inv.append("factor-nonpositive")
        else:
            rq.soft = True
    elif m == "disconnect":
        pass
    else:
        rq.soft = True
    rq.valid = (not inv) and not rq.soft
    # ---- allowed by (profile, state)  (C14)
    st = c.state
    if m == "connect":
        rq.allowed = st in ("built", "refused")
    elif m == "publish":
        rq.allowed = bool(c.profile & PUB) and st in ("connecting", "connected")
    elif m in ("subscribe", "unsubscribe"):
        rq.allowed = bool(c.profile & SUB) and st == "connected"
    elif m == "disconnect":
        rq.allowed = st == "connected"
    else:
        rq.allowed = True
    # I11: between a close request and the loss report acceptance is not judged - except after
    # disconnect() itself: once DISCONNECT is written the protocol is no longer connected, and
    # nothing is allowed until the loss is reported (C14 "disconnect() only while connected")
    rq.judged = c.closing is None or st == "lost"
    if c.closing == "lose" and getattr(c, "disconnect_written", None) and st != "lost":
        if m in ("connect", "publish", "subscribe", "unsubscribe", "disconnect"):
            rq.allowed = False
            rq.judged = True
    rq.returns_deferred = m in ("connect", "publish", "subscribe", "unsubscribe")
