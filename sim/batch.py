"""Batch driver: runs many seeded histories across worker processes, collects
violations / reach counters / distinct-run measures, minimises, writes replay
files and evidence."""
import faulthandler
import hashlib
import json
import os
import sys
import time
import traceback
from concurrent.futures import ProcessPoolExecutor, as_completed
import multiprocessing

VERIF = os.path.dirname(os.path.dirname(os.path.abspath(__file__)))

# property -> (family mix, relevance predicate name)
MIX = {
    "C02": ["wire", "wire", "general", "subscriber", "handshake", "args", "persistent"],
    "C04": ["handshake", "handshake", "general", "keepalive", "closing", "hostile", "resume"],
    "C05": ["publisher", "publisher", "window", "qos2", "general", "ids", "silence", "resume"],
    "C06": ["subscriber", "subscriber", "subscriber", "general", "persistent"],
    "C07": ["subreq", "subreq", "subreq", "general", "silence", "persistent", "clean", "resume"],
    "C08": ["silence", "silence", "silence", "publisher", "subreq", "qos2", "general", "resume"],
    "C09": ["qos2", "qos2", "qos2", "persistent", "silence", "publisher", "resume", "ids"],
    "C10": ["window", "window", "window", "publisher", "persistent", "general", "clean", "resume"],
    "C11": ["clean", "clean", "clean", "closing", "general", "keepalive", "hostile", "resume"],
    "C12": ["persistent", "persistent", "persistent", "qos2", "general", "resume"],
    "C13": ["general", "silence", "closing", "clean", "persistent", "publisher", "subreq", "keepalive", "resume"],
    "C14": ["gate", "gate", "gate", "general", "handshake", "closing"],
    "C15": ["keepalive", "keepalive", "keepalive", "general", "closing"],
    "C16": ["hostile", "hostile", "hostile", "handshake", "gate", "general"],
    "C17": ["ids", "ids", "ids", "publisher", "subreq", "general", "persistent", "resume"],
    "C18": ["closing", "closing", "general", "wire", "keepalive", "clean", "publisher", "subscriber", "resume"],
    "C20": ["args", "args", "args", "general", "gate"],
}


def relevant(prop, L):
    """Is this run non-trivial for the property (did it exercise what the
    property talks about)?"""
    P = L.probes
    reqs = L.reqs.values()
    if prop in ("C02", "C18"):
        return sum(len(c.out) for c in L.conns.values()) >= 3
    if prop == "C04":
        return any(c.connects for c in L.conns.values()) and any(c.state == "lost" or c.connack_seq for c in L.conns.values())
    if prop == "C05":
        return any(r.kind == "publish" and r.accepted and r.qos and r.fires for r in reqs)
    if prop == "C06":
        return bool(P.get("in_q2_publish") or P.get("in_q2_release")) or any(
            x for c in L.conns.values() for x in ())
    if prop == "C07":
        return any(r.kind in ("subscribe", "unsubscribe") and r.accepted for r in reqs)
    if prop == "C08":
        return any(k.startswith("expiry_unacked_") for k in P)
    if prop == "C09":
        return any(r.kind == "publish" and r.qos == 2 and r.rel_tx for r in reqs)
    if prop == "C10":
        return sum(1 for r in reqs if r.kind == "publish" and r.accepted) >= 3
    if prop == "C11":
        return bool(P.get("clean_loss")) and bool(P.get("loss_with_pending"))
    if prop == "C12":
        return bool(P.get("persistent_loss")) and bool(P.get("loss_with_pending"))
    if prop == "C13":
        return any(r.fires and r.accepted and r.kind != "connect" for r in reqs) or any(c.state == "lost" for c in L.conns.values())
    if prop == "C14":
        return bool(P.get("disallowed_call") or P.get("foreign_packet"))
    if prop == "C15":
        return any(c.pings for c in L.conns.values())
    if prop == "C16":
        return bool(P.get("malformed_frame") or L.w.fault_counts.get("raw_bytes"))
    if prop == "C17":
        return sum(1 for r in reqs if r.accepted and isinstance(r.msgId, int)) >= 2
    if prop == "C20":
        return bool(P.get("invalid_call"))
    return True


def _init_worker():
    faulthandler.enable()


def run_chunk(args):
    """Worker: run seeds [start, start+count) for `prop`."""
    prop, base, start, count, props_filter = args
    from sim import boot
    ns = boot.boot()
    from sim import runner
    faulthandler.dump_traceback_later(600, exit=True)
    out = {"runs": 0, "disp": 0, "simtime": 0.0, "steps": 0, "viol": {}, "probes": {}, "faults": {},
           "digests": [], "states": set(), "trans": set(), "nontrivial": 0, "samples": [], "errors": [],
           "tainted": 0, "noops": 0, "longest": 0, "digest_all": hashlib.sha256()}
    mix = MIX[prop]
    for i in range(start, start + count):
        seed = base + i
        fam = mix[i % len(mix)]
        try:
            r = runner.run_seed(ns, seed, fam, props_filter)
        except Exception:
            out["errors"].append((seed, fam, traceback.format_exc()[-1500:]))
            continue
        L, w = r.ledger, r.world
        out["runs"] += 1
        out["disp"] += w.seq
        out["simtime"] += min(w.now, 1e7)
        out["steps"] += len(r.steps)
        out["noops"] += w.n_noop
        out["longest"] = max(out["longest"], len(r.steps))
        out["digest_all"].update(r.digest.encode())
        if L.tainted:
            out["tainted"] += 1
        for k, v in L.probes.items():
            out["probes"][k] = out["probes"].get(k, 0) + v
        for k, v in w.fault_counts.items():
            out["faults"][k] = out["faults"].get(k, 0) + v
        out["states"] |= L.states
        out["trans"] |= set(hash(t) for t in L.trans)
        if relevant(prop, L):
            out["nontrivial"] += 1
            out["digests"].append(int(r.digest[:16], 16))
            if len(out["samples"]) < 1 and len(r.steps) <= 40:
                out["samples"].append({"seed": seed, "family": fam, "steps": r.steps})
        for v in r.violations:
            if v.prop != prop:
                continue
            e = out["viol"].get(v.sig)
            if e is None or len(r.steps) < e["nsteps"]:
                out["viol"][v.sig] = {"sig": v.sig, "seed": seed, "family": fam, "msg": v.msg, "nsteps": len(r.steps),
                                      "cfg": r.cfg, "steps": r.steps, "count": (e["count"] if e else 0) + 1,
                                      "chunk": [base, start, count]}
            else:
                e["count"] += 1
    faulthandler.cancel_dump_traceback_later()
    out["digest_all"] = out["digest_all"].hexdigest()
    out["states"] = list(out["states"])
    out["trans"] = list(out["trans"])
    return out


def merge(total, part):
    for k in ("runs", "disp", "simtime", "steps", "nontrivial", "tainted", "noops"):
        total[k] = total.get(k, 0) + part[k]
    total["longest"] = max(total.get("longest", 0), part["longest"])
    for k in ("probes", "faults"):
        d = total.setdefault(k, {})
        for kk, v in part[k].items():
            d[kk] = d.get(kk, 0) + v
    total.setdefault("digests", set()).update(part["digests"])
    total.setdefault("states", set()).update(tuple(x) if isinstance(x, list) else x for x in part["states"])
    total.setdefault("trans", set()).update(part["trans"])
    total.setdefault("samples", [])
    if len(total["samples"]) < 3:
        total["samples"].extend(part["samples"][:1])
    total.setdefault("errors", []).extend(part["errors"])
    total.setdefault("chunk_digests", []).append(part["digest_all"])
    v = total.setdefault("viol", {})
    for sig, e in part["viol"].items():
        o = v.get(sig)
        if o is None:
            v[sig] = e
        else:
            cnt = o["count"] + e["count"]
            if e["nsteps"] < o["nsteps"]:
                v[sig] = e
            v[sig]["count"] = cnt


def run_batch(prop, seed, n_runs, wall_cap, workers=None, chunk=100, props_filter=None):
    """Run up to n_runs histories (fewer if wall_cap seconds pass first)."""
    workers = workers or int(os.environ.get("VERIF_WORKERS", "0")) or min(16, os.cpu_count() or 4)
    base = seed << 32
    t0 = time.time()
    total = {}
    ctx = multiprocessing.get_context("fork")
    jobs = [(prop, base, s, min(chunk, n_runs - s), props_filter) for s in range(0, n_runs, chunk)]
    done = 0
    hung = False
    with ProcessPoolExecutor(max_workers=workers, mp_context=ctx, initializer=_init_worker) as ex:
        futs = []
        it = iter(jobs)
        # keep the queue short so the wall cap can stop submission
        for _ in range(workers * 2):
            j = next(it, None)
            if j is None:
                break
            futs.append(ex.submit(run_chunk, j))
        pending = set(futs)
        while pending:
            try:
                for f in as_completed(list(pending), timeout=900):
                    pending.discard(f)
                    part = f.result()
                    merge(total, part)
                    done += 1
                    if time.time() - t0 < wall_cap:
                        j = next(it, None)
                        if j is not None:
                            pending.add(ex.submit(run_chunk, j))
                    break
            except Exception as e:
                total.setdefault("errors", []).append((None, None, "worker failure: %r" % (e,)))
                hung = True
                break
        if hung:
            for f in pending:
                f.cancel()
    total["wall"] = time.time() - t0
    total["planned"] = n_runs
    total["hung"] = hung
    return total


# ------------------------------------------------------------------ loss sweep

SWEEP = {
    # property -> (family of the base history, session policy of the base, next-connection policies)
    "C11": ("clean", "clean", ("clean", "persistent")),
    "C12": ("persistent", "persistent", ("persistent", "clean")),
    "C09": ("qos2", "persistent", ("persistent",)),
    "C06": ("subscriber", "persistent", ("persistent", "clean")),
    "C07": ("subreq", "mixed", ("persistent", "clean")),
    "C13": ("general", "mixed", ("persistent", "clean")),
}


def _loss_steps(kind, keepalive):
    if kind == "fin":
        return [{"op": "net.close", "addr": "A", "kind": "fin", "drop": False}]
    if kind == "rst":
        return [{"op": "net.close", "addr": "A", "kind": "rst", "drop": True}]
    if kind == "disconnect":
        return [{"op": "app.call", "addr": "A", "m": "disconnect"}, {"op": "time.fire", "tie": 0},
                {"op": "net.finish_close", "addr": "A"}]
    if kind == "protoerr":
        # client aborts after a protocol error (reserved packet type), the loss follows
        return [{"op": "brk.raw", "addr": "A", "hex": "f000"}, {"op": "net.finish_close", "addr": "A"},
                {"op": "net.close", "addr": "A", "kind": "rst", "drop": True}]
    if kind == "keepalive":
        return [{"op": "time.advance", "dt": keepalive}, {"op": "time.advance", "dt": keepalive + 0.5},
                {"op": "net.finish_close", "addr": "A"}, {"op": "net.close", "addr": "A", "kind": "rst", "drop": True}]
    raise ValueError(kind)


def sweep_chunk(args):
    """Crash-point sweep: for a seeded fault-free base history, re-execute it cut by
    a connection loss of every kind after every step, followed by a rebuilt
    protocol, further traffic, drain and silence."""
    prop, base, start, count, props_filter = args
    import random
    from sim import boot
    ns = boot.boot()
    from sim import runner, gen as G
    fam, sess, nexts = SWEEP[prop]
    out = {"cases": 0, "runs": 0, "disp": 0, "viol": {}, "kinds": {}, "digests": set(), "nontrivial": 0, "errors": [],
           "crash_points": 0, "samples": []}
    for i in range(start, start + count):
        seed = base + (1 << 30) + i
        rng = random.Random(seed)
        cfg = G.make_config(rng, fam)
        cfg["seed"] = seed
        cfg["session"] = sess if sess != "mixed" else rng.choice(["clean", "persistent"])
        cfg["two_addr"] = False
        cfg["length"] = rng.randint(6, 22)
        cfg["faults"].update({"close": False, "stall": False, "raw": False})
        if i % 3 == 0:
            cfg["keepalive"] = rng.choice([2, 5, 60])
        g = G.Gen(rng, cfg)
        from sim.world import World
        from sim.engine import Ledger
        w = World(ns, cfg)
        L = Ledger(w, [], ["none"])
        w.observer = L.observe
        basesteps = []
        for _ in range(cfg["length"]):
            st = g.next(w, L)
            if st["op"] in ("net.close", "net.stall") or (st["op"] == "app.call" and st.get("m") == "disconnect"):
                continue
            basesteps.append(st)
            w.run_step(st)
        out["cases"] += 1
        kinds = ["fin", "rst", "disconnect", "protoerr"] + (["keepalive"] if cfg["keepalive"] else [])
        vv = {"$": "v31"} if cfg["version"] == 3 else {"$": "v311"}
        for cut in range(1, len(basesteps) + 1):
            out["crash_points"] += 1
            for kind in kinds:
                nxt = nexts[(cut + len(kind)) % len(nexts)]
                tail = [{"op": "app.build", "addr": "A"}]
                pre = rng.random() < 0.4
                conn = {"op": "app.call", "addr": "A", "m": "connect", "a": ["again"],
                        "k": {"cleanStart": nxt == "clean", "keepalive": 0, "version": vv}}
                tail.append(conn)
                if pre and cfg["profile"] & 2:
                    tail.append({"op": "app.call", "addr": "A", "m": "publish", "k": {"topic": "p/pre", "message": "x", "qos": rng.randint(0, 2)}})
                tail.append({"op": "brk.connack", "addr": "A", "rc": 0, "sp": nxt != "clean"})
                if cfg["profile"] & 2:
                    tail.append({"op": "app.call", "addr": "A", "m": "publish", "k": {"topic": "p/post", "message": "y", "qos": rng.randint(0, 2)}})
                if cfg["profile"] & 1:
                    tail.append({"op": "app.call", "addr": "A", "m": "subscribe", "a": ["s/#", 1]})
                steps = basesteps[:cut] + _loss_steps(kind, cfg["keepalive"]) + tail + [{"op": "drain"}, {"op": "silence"}]
                try:
                    r = runner.run_steps(ns, cfg, steps, props_filter)
                except Exception:
                    import traceback
                    out["errors"].append((seed, fam, traceback.format_exc()[-1200:]))
                    continue
                out["runs"] += 1
                out["disp"] += r.world.seq
                out["kinds"][kind] = out["kinds"].get(kind, 0) + 1
                if relevant(prop, r.ledger):
                    out["nontrivial"] += 1
                    out["digests"].add(int(r.digest[:16], 16))
                for v in r.violations:
                    if v.prop != prop:
                        continue
                    e = out["viol"].get(v.sig)
                    if e is None or len(steps) < e["nsteps"]:
                        out["viol"][v.sig] = {"sig": v.sig, "seed": seed, "family": "sweep:" + fam + ":" + kind, "msg": v.msg,
                                              "nsteps": len(steps), "cfg": cfg, "steps": steps, "count": (e["count"] if e else 0) + 1}
                    else:
                        e["count"] += 1
        if len(out["samples"]) < 1:
            out["samples"].append({"seed": seed, "base_steps": basesteps[:12], "loss_kinds": kinds})
    out["digests"] = list(out["digests"])
    return out


def run_sweep(prop, seed, n_cases, wall_cap, props_filter=None, chunk=4):
    workers = int(os.environ.get("VERIF_WORKERS", "0")) or min(16, os.cpu_count() or 4)
    base = seed << 32
    t0 = time.time()
    tot = {"cases": 0, "runs": 0, "disp": 0, "viol": {}, "kinds": {}, "digests": set(), "nontrivial": 0, "errors": [],
           "crash_points": 0, "samples": []}
    ctx = multiprocessing.get_context("fork")
    jobs = iter([(prop, base, s, min(chunk, n_cases - s), props_filter) for s in range(0, n_cases, chunk)])
    from concurrent.futures import wait, FIRST_COMPLETED
    with ProcessPoolExecutor(max_workers=workers, mp_context=ctx, initializer=_init_worker) as ex:
        pending = set()
        for _ in range(workers * 2):
            j = next(jobs, None)
            if j is not None:
                pending.add(ex.submit(sweep_chunk, j))
        while pending:
            done, pending = wait(pending, timeout=900, return_when=FIRST_COMPLETED)
            if not done:
                tot["errors"].append((None, None, "sweep worker timeout"))
                break
            for f in done:
                try:
                    part = f.result()
                except Exception as e:
                    tot["errors"].append((None, None, "sweep worker failed: %r" % (e,)))
                    continue
                for k in ("cases", "runs", "disp", "nontrivial", "crash_points"):
                    tot[k] += part[k]
                for k, v in part["kinds"].items():
                    tot["kinds"][k] = tot["kinds"].get(k, 0) + v
                tot["digests"].update(part["digests"])
                tot["errors"].extend(part["errors"])
                if len(tot["samples"]) < 2:
                    tot["samples"].extend(part["samples"][:1])
                for sig, e in part["viol"].items():
                    o = tot["viol"].get(sig)
                    if o is None or e["nsteps"] < o["nsteps"]:
                        cnt = (o["count"] if o else 0) + e["count"]
                        tot["viol"][sig] = e
                        e["count"] = cnt
                    else:
                        o["count"] += e["count"]
                if time.time() - t0 < wall_cap:
                    j = next(jobs, None)
                    if j is not None:
                        pending.add(ex.submit(sweep_chunk, j))
    tot["wall"] = time.time() - t0
    return tot
