"""Independent MQTT 3.1 / 3.1.1 reference codec, written from the OASIS text.

Shares no code with /repo/src/mqtt/pdu.py.  Used as:
  * encoder of everything the simulated broker sends,
  * strict decoder / judge of everything the client writes,
  * classifier (well-formed / malformed) of broker->client bytes.

Packets are plain dicts: {"type": "PUBLISH", ...fields...}.
"""

V31 = 3
V311 = 4

TYPES = {
    1: "CONNECT", 2: "CONNACK", 3: "PUBLISH", 4: "PUBACK", 5: "PUBREC",
    6: "PUBREL", 7: "PUBCOMP", 8: "SUBSCRIBE", 9: "SUBACK", 10: "UNSUBSCRIBE",
    11: "UNSUBACK", 12: "PINGREQ", 13: "PINGRESP", 14: "DISCONNECT",
}
TYPE_NUM = {v: k for k, v in TYPES.items()}

CLIENT_TO_BROKER = {"CONNECT", "PUBLISH", "PUBACK", "PUBREC", "PUBREL", "PUBCOMP",
                    "SUBSCRIBE", "UNSUBSCRIBE", "PINGREQ", "DISCONNECT"}
BROKER_TO_CLIENT = {"CONNACK", "PUBLISH", "PUBACK", "PUBREC", "PUBREL", "PUBCOMP",
                    "SUBACK", "UNSUBACK", "PINGRESP"}

# mandatory flag nibble (3.1.1 table 2.2); PUBLISH is variable
FIXED_FLAGS = {
    "CONNECT": 0, "CONNACK": 0, "PUBACK": 0, "PUBREC": 0, "PUBREL": 2, "PUBCOMP": 0,
    "SUBSCRIBE": 2, "SUBACK": 0, "UNSUBSCRIBE": 2, "UNSUBACK": 0, "PINGREQ": 0,
    "PINGRESP": 0, "DISCONNECT": 0,
}
# 3.1: PUBREL / SUBSCRIBE / UNSUBSCRIBE use QoS 1 and "DUP" is a live flag there
V31_DUP_ALLOWED = {"PUBREL", "SUBSCRIBE", "UNSUBSCRIBE"}


class Malformed(Exception):
    def __init__(self, why, **kw):
        Exception.__init__(self, why)
        self.why = why
        self.info = kw


# ------------------------------------------------------------------ primitives

def enc_varint(n):
    if not (0 <= n <= 268435455):
        raise ValueError("remaining length out of range: %r" % (n,))
    out = bytearray()
    while True:
        d = n & 0x7F
        n >>= 7
        if n:
            out.append(d | 0x80)
        else:
            out.append(d)
            return bytes(out)


def dec_varint(buf, pos, end=None):
    """Return (value, newpos) or None if incomplete; raise Malformed on >4 bytes."""
    val = 0
    shift = 0
    if end is None:
        end = len(buf)
    for i in range(4):
        if pos + i >= end:
            return None
        b = buf[pos + i]
        val |= (b & 0x7F) << shift
        shift += 7
        if not (b & 0x80):
            return val, pos + i + 1
    raise Malformed("remaining length longer than 4 bytes")


def enc_u16(n):
    if not isinstance(n, int) or isinstance(n, bool) or not (0 <= n <= 0xFFFF):
        raise ValueError("u16 out of range: %r" % (n,))
    return bytes(((n >> 8) & 0xFF, n & 0xFF))


def enc_bytes16(b):
    b = bytes(b)
    if len(b) > 0xFFFF:
        raise ValueError("string longer than 65535 bytes")
    return enc_u16(len(b)) + b


def enc_str(s):
    if isinstance(s, str):
        s = s.encode("utf-8")
    return enc_bytes16(s)


class _Rd(object):
    def __init__(self, buf):
        self.b = bytes(buf)
        self.p = 0

    def left(self):
        return len(self.b) - self.p

    def u8(self):
        if self.left() < 1:
            raise Malformed("truncated (u8)")
        v = self.b[self.p]
        self.p += 1
        return v

    def u16(self):
        if self.left() < 2:
            raise Malformed("truncated (u16)")
        v = (self.b[self.p] << 8) | self.b[self.p + 1]
        self.p += 2
        return v

    def raw(self, n):
        if self.left() < n:
            raise Malformed("truncated (bytes)")
        v = self.b[self.p:self.p + n]
        self.p += n
        return v

    def bin16(self):
        return self.raw(self.u16())

    def utf8(self, nul_ok=False):
        raw = self.bin16()
        try:
            s = raw.decode("utf-8")       # strict: rejects surrogates, overlongs
        except UnicodeDecodeError:
            raise Malformed("ill-formed UTF-8")
        if "\x00" in s and not nul_ok:
            raise Malformed("U+0000 in string")
        return s

    def rest(self):
        v = self.b[self.p:]
        self.p = len(self.b)
        return v

    def end(self):
        if self.left():
            raise Malformed("trailing bytes", extra=self.left())


# ------------------------------------------------------------------ framing

def split_stream(buf, start=0, end=None):
    """Split buf[start:] into whole packets.

    Returns (packets, newpos, error) where packets is a list of raw `bytes`
    frames (fixed header included); newpos is the offset of the first byte not
    consumed; error is None or a Malformed (framing cannot continue)."""
    out = []
    pos = start
    n = len(buf) if end is None else end
    while pos < n:
        if n - pos < 2:
            break
        try:
            r = dec_varint(buf, pos + 1, n)
        except Malformed as e:
            return out, pos, e
        if r is None:
            break
        length, body = r
        if n - body < length:
            break
        out.append(bytes(buf[pos:body + length]))
        pos = body + length
    return out, pos, None


def frame(first_byte, body):
    return bytes((first_byte,)) + enc_varint(len(body)) + bytes(body)


# ------------------------------------------------------------------ encoder

def encode(pkt, version=V311):
    """Encode a packet dict.  `flags` may override the flag nibble (used by the
    hostile broker); otherwise the mandatory value is used."""
    t = pkt["type"]
    num = TYPE_NUM[t]
    if t == "PUBLISH":
        qos = pkt.get("qos", 0)
        flags = (8 if pkt.get("dup") else 0) | (qos << 1) | (1 if pkt.get("retain") else 0)
        body = enc_str(pkt["topic"])
        if qos > 0:
            body += enc_u16(pkt["id"])
        body += bytes(pkt.get("payload", b""))
    else:
        flags = FIXED_FLAGS[t]
        if version == V31 and t in V31_DUP_ALLOWED and pkt.get("dup"):
            flags |= 8
        if t == "CONNECT":
            name = "MQIsdp" if version == V31 else "MQTT"
            body = enc_str(name) + bytes((version,))
            cf = 0
            if pkt.get("clean"):
                cf |= 0x02
            has_will = pkt.get("will_topic") is not None
            if has_will:
                cf |= 0x04 | ((pkt.get("will_qos", 0) & 3) << 3)
                if pkt.get("will_retain"):
                    cf |= 0x20
            if pkt.get("username") is not None:
                cf |= 0x80
            if pkt.get("password") is not None:
                cf |= 0x40
            body += bytes((cf,)) + enc_u16(pkt.get("keepalive", 0))
            body += enc_str(pkt["client_id"])
            if has_will:
                body += enc_str(pkt["will_topic"]) + enc_str(pkt["will_message"])
            if pkt.get("username") is not None:
                body += enc_str(pkt["username"])
            if pkt.get("password") is not None:
                body += enc_str(pkt["password"])
        elif t == "CONNACK":
            body = bytes((1 if pkt.get("session_present") else 0, pkt["rc"] & 0xFF))
        elif t in ("PUBACK", "PUBREC", "PUBREL", "PUBCOMP", "UNSUBACK"):
            body = enc_u16(pkt["id"])
        elif t == "SUBSCRIBE":
            body = enc_u16(pkt["id"])
            for topic, qos in pkt["topics"]:
                body += enc_str(topic) + bytes((qos,))
        elif t == "SUBACK":
            body = enc_u16(pkt["id"]) + bytes(pkt["granted"])
        elif t == "UNSUBSCRIBE":
            body = enc_u16(pkt["id"])
            for topic in pkt["topics"]:
                body += enc_str(topic)
        elif t in ("PINGREQ", "PINGRESP", "DISCONNECT"):
            body = b""
        else:
            raise ValueError(t)
    if "flags" in pkt and pkt["flags"] is not None:
        flags = pkt["flags"] & 0x0F
    return frame((num << 4) | flags, body)


# ------------------------------------------------------------------ decoder

def decode(raw, version=V311, strict=True, direction=None, semantic=True):
    """Decode one complete frame.  Raises Malformed.

    strict=True applies every rule of the negotiated version; strict=False only
    what is needed to extract fields (used to keep the broker going when the
    client emits something slightly wrong, e.g. a bad flag nibble).
    `direction`: "c2b" / "b2c" / None - reject packet types the sender may not send."""
    raw = bytes(raw)
    if len(raw) < 2:
        raise Malformed("short frame")
    num = raw[0] >> 4
    flags = raw[0] & 0x0F
    if num not in TYPES:
        raise Malformed("reserved packet type", type=num)
    t = TYPES[num]
    r = dec_varint(raw, 1)
    if r is None:
        raise Malformed("incomplete remaining length")
    length, body_at = r
    if len(raw) - body_at != length:
        raise Malformed("remaining length does not match frame")
    if strict and enc_varint(length) != raw[1:body_at]:
        raise Malformed("non-minimal remaining length")
    if direction == "c2b" and t not in CLIENT_TO_BROKER:
        raise Malformed("broker-only packet type from client", ptype=t)
    if direction == "b2c" and t not in BROKER_TO_CLIENT:
        raise Malformed("client-only packet type from broker", ptype=t)
    rd = _Rd(raw[body_at:])
    pkt = {"type": t, "flags": flags}
    if t == "PUBLISH":
        qos = (flags >> 1) & 3
        if qos == 3:
            raise Malformed("PUBLISH QoS 3")
        pkt["dup"] = bool(flags & 8)
        pkt["qos"] = qos
        pkt["retain"] = bool(flags & 1)
        if strict and semantic and qos == 0 and pkt["dup"]:
            raise Malformed("DUP set on QoS 0 PUBLISH")
        pkt["topic"] = rd.utf8(nul_ok=not semantic)
        if strict and semantic and (pkt["topic"] == "" ):
            raise Malformed("empty topic name")
        if strict and semantic and ("#" in pkt["topic"] or "+" in pkt["topic"]):
            raise Malformed("wildcard in topic name")
        if qos:
            pkt["id"] = rd.u16()
            if strict and semantic and pkt["id"] == 0:
                raise Malformed("packet identifier 0")
        else:
            pkt["id"] = None
        pkt["payload"] = rd.rest()
        return pkt
    want = FIXED_FLAGS[t]
    if strict and flags != want:
        if version == V31 and t in V31_DUP_ALLOWED and flags == (want | 8):
            pkt["dup"] = True
        elif version == V31 and t in ("PUBACK", "PUBREC", "PUBCOMP", "SUBACK", "UNSUBACK",
                                      "CONNACK", "PINGREQ", "PINGRESP", "DISCONNECT", "CONNECT"):
            # 3.1 says DUP/QoS/RETAIN are "not used" for these; a sender still
            # should write 0.  We judge client output under 3.1 as strictly as 3.1.1
            raise Malformed("flag bits set on %s" % t, flags=flags)
        else:
            raise Malformed("wrong flag bits on %s" % t, flags=flags, want=want)
    if t == "CONNECT":
        name = rd.utf8()
        level = rd.u8()
        if strict:
            if (name, level) not in (("MQIsdp", 3), ("MQTT", 4)):
                raise Malformed("bad protocol name/level", name=name, level=level)
        pkt["proto_name"] = name
        pkt["level"] = level
        cf = rd.u8()
        if strict and level == 4 and (cf & 1):
            raise Malformed("CONNECT reserved flag set")
        pkt["clean"] = bool(cf & 2)
        will = bool(cf & 4)
        wq = (cf >> 3) & 3
        wr = bool(cf & 0x20)
        if strict:
            if wq == 3:
                raise Malformed("will QoS 3")
            if not will and (wq or wr):
                raise Malformed("will QoS/retain without will flag")
            if (cf & 0x40) and not (cf & 0x80) and level == 4:
                raise Malformed("password flag without user flag")
        pkt["keepalive"] = rd.u16()
        pkt["client_id"] = rd.utf8()
        pkt["will_topic"] = pkt["will_message"] = None
        pkt["will_qos"] = wq if will else 0
        pkt["will_retain"] = wr if will else False
        if will:
            pkt["will_topic"] = rd.utf8()
            pkt["will_message"] = rd.bin16()
        pkt["username"] = rd.utf8() if (cf & 0x80) else None
        pkt["password"] = rd.bin16() if (cf & 0x40) else None
        if strict:
            rd.end()
    elif t == "CONNACK":
        a = rd.u8()
        pkt["rc"] = rd.u8()
        pkt["session_present"] = bool(a & 1)
        if strict:
            if a & 0xFE:
                raise Malformed("CONNACK reserved ack flags")
            rd.end()
    elif t in ("PUBACK", "PUBREC", "PUBREL", "PUBCOMP", "UNSUBACK"):
        pkt["id"] = rd.u16()
        if strict:
            rd.end()
            # PUBACK/PUBREC/PUBCOMP written by the client echo a received identifier
            echo = direction == "c2b" and t in ("PUBACK", "PUBREC", "PUBCOMP")
            if pkt["id"] == 0 and semantic and not echo:
                raise Malformed("packet identifier 0")
    elif t == "SUBSCRIBE":
        pkt["id"] = rd.u16()
        topics = []
        while rd.left():
            tp = rd.utf8()
            q = rd.u8()
            if strict and q > 2:
                raise Malformed("requested QoS > 2")
            if strict and tp == "":
                raise Malformed("empty topic filter")
            topics.append((tp, q))
        if strict and not topics:
            raise Malformed("SUBSCRIBE without topics")
        if strict and pkt["id"] == 0:
            raise Malformed("packet identifier 0")
        pkt["topics"] = topics
    elif t == "SUBACK":
        pkt["id"] = rd.u16()
        pkt["granted"] = list(rd.rest())
        if strict:
            if not pkt["granted"]:
                raise Malformed("SUBACK without return codes")
            for g in pkt["granted"]:
                if semantic and g not in (0, 1, 2, 0x80):
                    raise Malformed("reserved SUBACK return code", code=g)
    elif t == "UNSUBSCRIBE":
        pkt["id"] = rd.u16()
        topics = []
        while rd.left():
            tp = rd.utf8()
            if strict and tp == "":
                raise Malformed("empty topic filter")
            topics.append(tp)
        if strict and not topics:
            raise Malformed("UNSUBSCRIBE without topics")
        if strict and pkt["id"] == 0:
            raise Malformed("packet identifier 0")
        pkt["topics"] = topics
    else:  # PINGREQ PINGRESP DISCONNECT
        if strict:
            rd.end()
    return pkt


def peek_type(raw):
    num = raw[0] >> 4
    return TYPES.get(num, "RESERVED%d" % num)


def judge_b2c(raw, version=V311, lenient_flags=True):
    """Classify one frame sent broker->client.  Returns (ok, pkt_or_reason).

    lenient_flags: an ack whose only defect is a non-zero reserved flag nibble is
    treated as well-formed (DESIGN 6 I4)."""
    try:
        return True, decode(raw, version, strict=True, direction="b2c", semantic=False)
    except Malformed as e:
        if e.why == "non-minimal remaining length":
            # MQTT 3.1 / 3.1.1 describe the encoder, which is minimal, but do not tell a receiver to
            # refuse a longer encoding of the same number (MQTT 5 does): a client may read such a
            # packet as the packet it spells, or refuse it.  Marked ambiguous: judged neither way.
            try:
                r = dec_varint(raw, 1)
                canon = bytes(raw[:1]) + enc_varint(r[0]) + bytes(raw[r[1]:])
                ok2, _ = judge_b2c(canon, version, lenient_flags)
                e.ambiguous = bool(ok2)
            except Exception:
                e.ambiguous = False
            return False, e
        if lenient_flags:
            try:
                t = TYPES.get(raw[0] >> 4)
                if t == "CONNACK" and len(raw) == 4 and raw[1] == 2:
                    # the first CONNACK byte is "reserved / not used" in 3.1 and only bit 0
                    # is defined in 3.1.1: the other bits are don't-care here (I4)
                    fixed = bytes((0x20, 2, raw[2] & 1, raw[3]))
                    return True, decode(fixed, version, strict=True, direction="b2c", semantic=False)
                if t and t != "PUBLISH" and t in BROKER_TO_CLIENT:
                    fixed = bytes(((raw[0] & 0xF0) | FIXED_FLAGS[t],)) + bytes(raw[1:])
                    return True, decode(fixed, version, strict=True, direction="b2c", semantic=False)
            except Malformed:
                pass
        return False, e
