#!/bin/sh
# usage: tools/soak.sh <first seed> <last seed> [props...]   -- runs quick checks under many VERIF_SEEDs
cd "$(dirname "$0")/.."
a=$1; b=$2; shift 2
props="${*:-C02 C03 C04 C05 C06 C07 C08 C09 C10 C11 C12 C13 C14 C15 C16 C17 C18 C19 C20}"
s=$a
while [ $s -le $b ]; do
  for p in $props; do
    out=$(VERIF_SEED=$s VERIF_REPLAY_DIR=${VERIF_REPLAY_DIR:-/verif/replays} ./check $p --tier ${SOAK_TIER:-quick} 2>&1); rc=$?
    if [ $rc -ne 0 ]; then echo "=== seed $s $p exit $rc"; echo "$out" | tail -15; fi
  done
  echo "seed $s done"
  s=$((s+1))
done
