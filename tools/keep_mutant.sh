#!/bin/sh
# usage: tools/keep_mutant.sh <srcdir> <seeded-id> <PROP> [other props]
# evaluates the seeded change and stores it under /verif/seeded/<seeded-id>/ with meta.json
src=$1; id=$2; prop=$3; shift 3
out=$(/verif/tools/eval_mutant.sh "$src" "$prop" "$@" 2>&1)
echo "$out" | tail -n +1 | cut -c1-300
dst=/verif/seeded/$id
mkdir -p "$dst"
cp "$src/patch.diff" "$src/demo.py" "$dst/"
[ -f "$src/notes.txt" ] && cp "$src/notes.txt" "$dst/"
/venv/bin/python - "$dst" "$id" "$prop" <<PY
import json, sys, re
dst, sid, prop = sys.argv[1:4]
out = '''$(echo "$out" | sed "s/'''/'' '/g" | cut -c1-900)'''
notes = open(dst + "/notes.txt").read() if __import__("os").path.exists(dst + "/notes.txt") else ""
checks = {}
for m in re.finditer(r"check (C\d+) exit=(\d) :: ([^\n]*)", out):
    checks[m.group(1)] = {"exit": int(m.group(2)), "first_signatures": re.findall(r"(C\d+\.[A-Z]\w*:[^ ]+?): ", m.group(3))[:3]}
t = re.search(r"tests base: ([^|]*)\| mutant: ([^|]*)\| demo without=(\d) with=(\d)", out)
meta = {"id": sid, "breaks_property": prop, "origin": "independent sub-agent given only the property text and a scratch worktree",
        "needs_to_manifest": notes.strip(),
        "confirmed": {"tests_unpatched": t.group(1).strip() if t else None, "tests_patched": t.group(2).strip() if t else None,
                      "demo_exit_unpatched": int(t.group(3)) if t else None, "demo_exit_patched": int(t.group(4)) if t else None,
                      "how": "tools/eval_mutant.sh: fresh worktree of /repo HEAD, pytest before/after git apply patch.diff, demo.py before/after, then ./check <prop> --tier quick with VERIF_REPO_SRC=<worktree>/src"},
        "checks": checks}
json.dump(meta, open(dst + "/meta.json", "w"), indent=1)
print("kept", sid, {k: v["exit"] for k, v in checks.items()})
PY
