#!/venv/bin/python
"""Writes /verif/MANIFEST.json from the table below (kept in one place so the
17+ entries stay consistent)."""
import json, os
VERIF = os.path.dirname(os.path.dirname(os.path.abspath(__file__)))

LEVEL = {
 "C02": ("exploration", "5 C02", "every packet written in every simulated session (both versions, DUP-patched repeats, resumes) is strictly decoded, re-encoded and compared with the request by an independent reference codec; unrepresentable arguments must fail with nothing written; plus one fixed scenario at the 268435455-byte remaining-length limit (refusal in the quick tier, acceptance in the thorough tier)"),
 "C03": ("fault_enumeration", "5 C03", "differential simulation: the same broker byte stream is delivered under every single cut, byte-at-a-time, all 2^(n-1) compositions of short streams and seeded random compositions, and the observation log must equal the one-packet-per-chunk run"),
 "C04": ("exploration", "5 C04", "handshake histories over 3 profiles x 2 versions x all CONNACK codes x timeout/loss/duplicate orderings, the connect Deferred and onDisconnection observed for exactly-once"),
 "C05": ("exploration", "5 C05", "seeded interleavings of publishes, windows, expiries and a broker answering in any order / twice / with unknown ids; each Deferred firing is matched against the acknowledgement delivered in the same dispatch"),
 "C06": ("exploration", "5 C06", "inbound QoS 0/1/2 flows with repeats, unknown PUBRELs, interleaved ids and loss+reconnect at any point; deliveries and acknowledgements of each dispatch compared with what the reference codec sent"),
 "C07": ("exploration", "5 C07", "subscribe/unsubscribe in all argument shapes under changing windows, foreign/duplicate acks, expiries, loss and reconnect, ended by a drain phase in which everything must settle"),
 "C08": ("exploration", "5 C08", "a silent broker for k consecutive expiries in virtual time; retransmissions attributed to the timers armed by the previous transmission (black-box), content/flags/spacing checked"),
 "C09": ("exploration", "5 C09", "QoS 2 exchanges with out-of-order/duplicate acks, both retry timers and loss+resume at any point; per-identifier packet order checked across connections"),
 "C10": ("exploration", "5 C10", "window 1..16 changed at any time, any QoS mix, resumed sessions; in-flight count at every first transmission, FIFO order, nothing stranded after every dispatch; plus one fixed scenario with more than 65535 messages held back behind a full window"),
 "C11": ("fault_enumeration", "5 C11", "clean-session histories cut by a loss of every kind at seeded points with requests in every stage, followed by a rebuilt protocol and further traffic"),
 "C12": ("fault_enumeration", "5 C12", "persistent-session histories cut by losses (repeated), each followed by a rebuilt protocol connecting persistent or clean, publishing before and after CONNACK"),
 "C13": ("exploration", "5 C13", "timer table and writes checked after every dispatch of every family, then every connection is ended and all remaining timers are fired up to 1e7 virtual seconds"),
 "C14": ("exploration", "5 C14", "every API operation on every handle (live, connecting, idle, refused, stale) and every broker packet type foreign to state/profile at random points of fault-laden histories"),
 "C15": ("exploration", "5 C15", "keepalive 0..65535, many periods in virtual time, PINGRESP at any offset / exactly at k / never / twice / unsolicited, ties between the periodic call and the deadline resolved both ways"),
 "C16": ("exploration", "5 C16", "mutated / truncated / extended valid packets, every first byte, random streams, invalid UTF-8, reserved types and codes in every state with requests pending"),
 "C17": ("exploration", "5 C17", "every identifier on the wire and on Deferreds checked against all unfinished requests of the factory; identifier counter placed shortly before the wrap or right before identifiers in use (also ones only held back in a queue, on either address) while requests are unfinished; a 65536-message queue and, in the thorough tier, a full 65535-allocation cycle"),
 "C18": ("exploration", "5 C18", "the complete byte stream of every connection strictly parsed; API calls and timer expiries placed in the interval between disconnect()/abort and the asynchronous loss report"),
 "C19": ("exploration", "5 C19", "differential simulation: histories on two addresses run alone and interleaved on one factory; per-address observation logs must be equal up to renaming of identifiers; in half of the joint runs the shared counter is moved onto an identifier in use at a seeded address and the identifier rules judge the run; in a third kind of joint run a callback of one address acts on the other, which must behave as if the call had been made at top level"),
 "C20": ("exploration", "5 C20", "boundary / out-of-range / ill-typed arguments injected at random points of fault-laden histories; atomicity checked per dispatch and metamorphically (schedule with the rejected calls deleted gives the same observation log)"),
}
TECH = {
 "C03": "deterministic simulation, differential over chunk compositions (systematic cuts + seeded)",
 "C19": "deterministic simulation, differential solo-vs-interleaved runs",
 "C11": "deterministic simulation with fault injection: seeded connection-loss points over generated clean-session histories",
 "C12": "deterministic simulation with fault injection: seeded connection-loss points over generated persistent-session histories",
}
checks = []
SKIP = [x for x in os.environ.get("MANIFEST_SKIP", "").split(",") if x]
for pid in sorted(LEVEL):
    if pid in SKIP:
        continue
    cat, ref, text = LEVEL[pid]
    checks.append({
        "property_id": pid,
        "quick_cmd": "./check %s --tier quick" % pid,
        "thorough_cmd": "./check %s --tier thorough" % pid,
        "evidence_file": "/verif/evidence/%s.json" % pid,
        "replay_cmd_template": "./check %s --replay {path}" % pid,
        "engine": "sim",
        "level_claimed": {"category": cat, "text": text, "design_ref": "DESIGN.md " + ref},
        "level_note": "trusted: the TCP transport stub (models twisted.internet.tcp.Connection), the independent reference codec sim/refcodec.py, the trace-derived ledger; seeded search, not exhaustive: a clean batch is evidence, not proof",
        "technique": TECH.get(pid, "deterministic simulation with fault injection: seeded schedule/fault search, invariants after every dispatch + history checks after a drain phase"),
    })
m = {
 "version": 1,
 "setup_cmd": "./selftest/setup.sh",
 "hooks": {
  "guard": "TWISTED_MQTT_VERIF",
  "enable": "no source hooks exist: the simulator installs its reactor with twisted.internet.main.installReactor() before importing mqtt, replaces the module attribute mqtt.client.interval.random and passes its transport to makeConnection (DESIGN.md 1); the guard variable is set by sim/boot.py for completeness and read by nothing in /repo",
  "baseline_off_cmd": "cd /repo && /venv/bin/python -m pytest -ra -q -p no:cacheprovider --timeout=900 --continue-on-collection-errors src",
  "source_commits": [],
  "add_only": True
 },
 "engines": [{"name": "sim", "path": "/verif/sim", "serves_properties": sorted(LEVEL),
              "kind_free_text": "single-process discrete-event simulator (virtual-time reactor, TCP transport stub, scripted broker, application driver) around the real twisted-mqtt client; seeded generator, ledger + rule monitors, ddmin minimiser, JSON step-list replay"}],
 "checks": checks,
 "not_applicable": [
  {"property_id": "C01", "reason": "decode(encode(x)) == x is a pure function of its input: no clock, schedule, peer, fault or history exists for a simulator to control; dressing input generation in simulator vocabulary would not be this technique (DESIGN.md 5 C01)"}
 ],
 "notes": "All checks run with /venv/bin/python against /repo/src as it is in the working tree (VERIF_REPO_SRC overrides). Genuine defects found were repaired by fix: commits in /repo (known_findings.json, section fixed); one finding is recorded as known (C08, factor < 1)."
}
for pid in SKIP:
    m["not_applicable"].append({"property_id": pid, "reason": "not claimed yet: the differential check for this property is still being built (it applies; see DESIGN.md 5)"})
m["engines"][0]["serves_properties"] = [c["property_id"] for c in checks]
json.dump(m, open(os.path.join(VERIF, "MANIFEST.json"), "w"), indent=1)
print("wrote MANIFEST.json with", len(checks), "checks")
