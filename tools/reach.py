#!/venv/bin/python
"""Measure reach: which lines (and branch arcs) of src/mqtt the simulated runs
execute.  usage: tools/reach.py [runs-per-family] ; prints the lines of
src/mqtt/client/*.py and src/mqtt/pdu.py never executed by any family, and
writes selftest/reach.json."""
import os, sys, json
os.environ.setdefault("PYTHONHASHSEED", "0")
ROOT = os.path.dirname(os.path.dirname(os.path.abspath(__file__)))
sys.path.insert(0, ROOT)
import coverage
SRC = os.environ.get("VERIF_REPO_SRC", "/repo/src")
cov = coverage.Coverage(data_file=None, branch=True, include=[SRC + "/mqtt/*"], omit=["*/test/*"])
cov.start()
from sim import boot
ns = boot.boot()
from sim import runner, gen, diffcheck
n = int(sys.argv[1]) if len(sys.argv) > 1 else 150
for fi, fam in enumerate(gen.FAMILIES):
    for i in range(n):
        runner.run_seed(ns, (fi << 20) + i, fam, None)
# the differential checks drive their own worlds
diffcheck.c03_chunk((0, 0, 10, "quick"))
diffcheck.c19_chunk((0, 0, 30, "quick"))
cov.stop()
out = {}
tot = miss = 0
for f in sorted(cov.get_data().measured_files()):
    an = cov.analysis2(f)
    stm, missing = an[1], an[3]
    tot += len(stm); miss += len(missing)
    rel = os.path.relpath(f, SRC)
    out[rel] = {"statements": len(stm), "missing": missing}
    print("%-34s %4d stmts %4d missed  %s" % (rel, len(stm), len(missing), coverage.misc.format_lines(stm, missing) if hasattr(coverage.misc, "format_lines") else missing))
print("total %d statements, %d never executed (%.1f%% reached)" % (tot, miss, 100.0 * (tot - miss) / max(tot, 1)))
json.dump({"runs_per_family": n, "files": out, "statements": tot, "never_executed": miss}, open(os.path.join(ROOT, "selftest", "reach.json"), "w"), indent=1)
