#!/bin/sh
# usage: tools/eval_mutant.sh <dir with patch.diff demo.py> <PROP> [other props to try...]
# Confirms the seeded change in a fresh scratch worktree (tests unchanged, demo fails with /
# passes without), then runs the named quick checks against the patched source.
set -u
src=$1; prop=$2; shift 2
others="$*"
name=$(basename "$src")
wt=/tmp/mutv/$name
rm -rf "$wt"; git -C /repo worktree prune
git -C /repo worktree add -q "$wt" HEAD || exit 2
cp /repo/src/mqtt/_version.py "$wt/src/mqtt/_version.py"
cd "$wt"
base=$(PYTHONPATH=$wt/src /venv/bin/python -m pytest -q -p no:cacheprovider src 2>&1 | tail -1)
PYTHONPATH=$wt/src /venv/bin/python "$src/demo.py" >/tmp/mutv/$name.demo0 2>&1; d0=$?
git apply "$src/patch.diff" || { echo "PATCH DOES NOT APPLY"; exit 2; }
mut=$(PYTHONPATH=$wt/src /venv/bin/python -m pytest -q -p no:cacheprovider src 2>&1 | tail -1)
PYTHONPATH=$wt/src /venv/bin/python "$src/demo.py" >/tmp/mutv/$name.demo1 2>&1; d1=$?
echo "tests base: $base | mutant: $mut | demo without=$d0 with=$d1"
cd /verif
for p in $prop $others; do
  out=$(VERIF_REPO_SRC=$wt/src VERIF_REPLAY_DIR=/tmp/mutv/rep-$name ./check $p --tier quick 2>&1); rc=$?
  echo "check $p exit=$rc :: $(echo "$out" | grep -m2 '^  C\|HARNESS' | cut -c1-220 | tr '\n' '|')"
done
git -C /repo worktree remove --force "$wt"
