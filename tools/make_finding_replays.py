#!/venv/bin/python
"""Regenerate /verif/findings/*.json: minimised replays of the defects that were
repaired, produced by the machinery against the ORIGINAL tree.

usage: VERIF_REPO_SRC=<src of the pre-fix tree> tools/make_finding_replays.py sigs.txt
sigs.txt lines:  SIG <signature> seed=<n> family=<f> ...   (output of VERIF_LIST_ALL=1 ./check)
"""
import hashlib, json, os, re, sys
VERIF = os.path.dirname(os.path.dirname(os.path.abspath(__file__)))
sys.path.insert(0, VERIF)
from sim import boot
boot.reexec_with_fixed_hashseed()
ns = boot.boot()
from sim import runner, minimize

want = json.load(open(os.path.join(VERIF, "known_findings.json")))
sigs = {}
for line in open(sys.argv[1]):
    m = re.match(r"SIG (\S.*?) seed=(\d+) family=(\w+) ", line)
    if m:
        sigs.setdefault(m.group(1), (int(m.group(2)), m.group(3)))
out = os.path.join(VERIF, "findings")
os.makedirs(out, exist_ok=True)
for e in want["fixed"] + want["findings"]:
    for sig in e["signatures"][:2]:
        cand = [s for s in sigs if s.startswith(sig)]
        if not cand:
            print("no example for", sig)
            continue
        full = cand[0]
        seed, fam = sigs[full]
        prop = full.split(".")[0]
        r = runner.run_seed(ns, seed, fam, [prop])
        if not any(v.sig == full for v in r.violations):
            print("seed does not reproduce", full)
            continue
        m, n = minimize.minimize(ns, r.cfg, r.steps, full, None, budget=2500)
        cfg, steps = m
        name = "%s-%s.json" % (prop, hashlib.sha1(full.encode()).hexdigest()[:10])
        with open(os.path.join(out, name), "w") as f:
            json.dump({"property": prop, "signature": full, "message": [v.msg for v in r.violations if v.sig == full][0],
                       "seed": seed, "family": fam, "config": cfg, "steps": steps,
                       "tree": "original (85d2961), before the fix: commits",
                       "replay_cmd": "VERIF_REPO_SRC=<pre-fix src> ./check %s --replay findings/%s" % (prop, name)}, f, indent=1)
        print(full, "->", name, len(steps), "steps")
