#!/bin/sh
# For every kept seeded change: how many of the quick check's runs see a violation
# (the largest count over the reported signatures).  usage: tools/hit_rates.sh [ids...]
cd /verif
ids="$*"; [ -z "$ids" ] && ids=$(ls seeded)
for id in $ids; do
  prop=${id%%-*}
  wt=/tmp/mutv/hr-$id
  rm -rf "$wt"; git -C /repo worktree prune
  git -C /repo worktree add -q "$wt" HEAD || continue
  cp /repo/src/mqtt/_version.py "$wt/src/mqtt/_version.py"
  if ! git -C "$wt" apply "/verif/seeded/$id/patch.diff" 2>/dev/null; then echo "$id apply-fail"; git -C /repo worktree remove --force "$wt"; continue; fi
  out=$(VERIF_REPO_SRC=$wt/src VERIF_REPLAY_DIR=/tmp/mutv/hr-rep VERIF_LIST_ALL=1 ./check $prop --tier quick 2>&1)
  n=$(echo "$out" | grep -o "^SIG [^ ]* seed=[^ ]* family=[^ ]* n=[0-9]*" | sed 's/.*n=//' | sort -n | tail -1)
  k=$(echo "$out" | grep -c "^SIG ")
  d=$(echo "$out" | grep -c "^VIOLATION")
  echo "$id max_runs=${n:-0} signatures=$k violations_reported=$d"
  git -C /repo worktree remove --force "$wt"
done
rm -rf /tmp/mutv/hr-rep
