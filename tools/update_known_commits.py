#!/venv/bin/python
"""Refresh the commit hashes of the `fixed` entries in known_findings.json from
/repo's history (entries are matched by a fragment of the commit subject)."""
import json, os, subprocess
VERIF = os.path.dirname(os.path.dirname(os.path.abspath(__file__)))
p = os.path.join(VERIF, "known_findings.json")
doc = json.load(open(p))
log = subprocess.check_output(["git", "-C", "/repo", "log", "--format=%h\t%s"]).decode().splitlines()
subjects = dict((l.split("\t", 1)[1], l.split("\t", 1)[0]) for l in log)
for e in doc["fixed"]:
    subj = e.get("subject")
    if subj is None:
        # first time: remember the subject of the commit currently recorded
        for s, h in subjects.items():
            if h == e["commit"]:
                subj = e["subject"] = s
    if subj in subjects:
        e["commit"] = subjects[subj]
    else:
        print("NOT FOUND:", e["what"][:60], e.get("commit"))
json.dump(doc, open(p, "w"), indent=1)
print("ok")
