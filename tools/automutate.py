#!/venv/bin/python
"""Mechanical mutation sweep (sensitivity measure, complements the hand-written
seeded changes): small AST-located edits of src/mqtt/**.py (comparison flips,
and/or, True/False, +-1 on small integers, deletion of call / del / assignment
statements).  A mutant is kept only if the unedited test-suite gives exactly
the baseline result; it is then run against an omnibus simulation batch (all
scenario families, all rules) and against the differential checks C03 / C19.

usage: tools/automutate.py [--files a.py,b.py] [--max N] [--runs R] [--out report.json]
Scratch copies live under /tmp/automut and are removed when done.
"""
import ast
import json
import os
import random
import shutil
import subprocess
import sys
import time
from concurrent.futures import ProcessPoolExecutor
import multiprocessing

VERIF = os.path.dirname(os.path.dirname(os.path.abspath(__file__)))
REPO_SRC = "/repo/src"
FILES = ["mqtt/client/base.py", "mqtt/client/pubsubs.py", "mqtt/client/factory.py", "mqtt/client/interval.py",
         "mqtt/client/publisher.py", "mqtt/client/subscriber.py", "mqtt/pdu.py"]
SCRATCH = "/tmp/automut"

CMP = {ast.Eq: "!=", ast.NotEq: "==", ast.Lt: "<=", ast.LtE: "<", ast.Gt: ">=", ast.GtE: ">", ast.Is: "is not",
       ast.IsNot: "is", ast.In: "not in", ast.NotIn: "in"}


def candidates(path, text):
    """yield (kind, lineno, description, new_text)"""
    tree = ast.parse(text)
    lines = text.split("\n")

    def seg(node):
        return ast.get_source_segment(text, node)

    def replace_span(node, new):
        # single-line spans only
        if node.lineno != node.end_lineno:
            return None
        l = lines[node.lineno - 1]
        # col offsets are in utf8 bytes
        b = l.encode("utf-8")
        nb = b[:node.col_offset] + new.encode("utf-8") + b[node.end_col_offset:]
        out = list(lines)
        out[node.lineno - 1] = nb.decode("utf-8")
        return "\n".join(out)

    in_test_or_doc = set()
    for node in ast.walk(tree):
        # skip log.* calls and docstrings
        pass
    for node in ast.walk(tree):
        if isinstance(node, ast.Compare) and len(node.ops) == 1 and type(node.ops[0]) in CMP:
            left, right = seg(node.left), seg(node.comparators[0])
            if left is None or right is None:
                continue
            new = "%s %s %s" % (left, CMP[type(node.ops[0])], right)
            r = replace_span(node, new)
            if r:
                yield ("cmp", node.lineno, "%s -> %s" % (seg(node), new), r)
        elif isinstance(node, ast.BoolOp) and len(node.values) == 2:
            a, b = seg(node.values[0]), seg(node.values[1])
            if a is None or b is None:
                continue
            op = "or" if isinstance(node.op, ast.And) else "and"
            new = "%s %s %s" % (a, op, b)
            r = replace_span(node, new)
            if r:
                yield ("bool", node.lineno, "%s -> %s" % (seg(node), new), r)
        elif isinstance(node, ast.Constant) and isinstance(node.value, bool):
            r = replace_span(node, "False" if node.value else "True")
            if r:
                yield ("const", node.lineno, "%s -> %s" % (node.value, not node.value), r)
        elif isinstance(node, ast.Constant) and isinstance(node.value, int) and not isinstance(node.value, bool) \
                and 0 <= node.value <= 16:
            for d in (1, -1):
                if node.value + d < 0:
                    continue
                r = replace_span(node, str(node.value + d))
                if r:
                    yield ("int", node.lineno, "%d -> %d" % (node.value, node.value + d), r)
        elif isinstance(node, ast.Not) if False else False:
            pass
    # statement deletions
    for node in ast.walk(tree):
        body = getattr(node, "body", None)
        for fld in ("body", "orelse", "finalbody"):
            stmts = getattr(node, fld, None)
            if not isinstance(stmts, list):
                continue
            for st in stmts:
                if not isinstance(st, (ast.Expr, ast.Delete, ast.Assign, ast.AugAssign)):
                    continue
                s = seg(st) or ""
                if isinstance(st, ast.Expr):
                    if isinstance(st.value, ast.Constant):      # docstring
                        continue
                    if s.startswith("log."):
                        continue
                if st.lineno != st.end_lineno:
                    continue
                out = list(lines)
                l = out[st.lineno - 1]
                indent = l[:len(l) - len(l.lstrip())]
                out[st.lineno - 1] = indent + "pass"
                yield ("del", st.lineno, "delete: %s" % s.strip()[:90], "\n".join(out))
    # swap two adjacent single-line statements of a body
    for node in ast.walk(tree):
        for fld in ("body", "orelse", "finalbody"):
            stmts = getattr(node, fld, None)
            if not isinstance(stmts, list):
                continue
            for a, b in zip(stmts, stmts[1:]):
                if a.lineno != a.end_lineno or b.lineno != b.end_lineno or b.lineno != a.lineno + 1:
                    continue
                if not isinstance(a, (ast.Expr, ast.Assign, ast.AugAssign, ast.Delete)) or \
                        not isinstance(b, (ast.Expr, ast.Assign, ast.AugAssign, ast.Delete)):
                    continue
                sa, sb = seg(a) or "", seg(b) or ""
                if sa.startswith("log.") or sb.startswith("log.") or (isinstance(a, ast.Expr) and isinstance(a.value, ast.Constant)):
                    continue
                out = list(lines)
                out[a.lineno - 1], out[b.lineno - 1] = out[b.lineno - 1], out[a.lineno - 1]
                yield ("swap", a.lineno, "swap: %s <-> %s" % (sa.strip()[:50], sb.strip()[:50]), "\n".join(out))
    # unary not on if-tests
    for node in ast.walk(tree):
        if isinstance(node, (ast.If, ast.While)) and node.test.lineno == node.test.end_lineno:
            t = seg(node.test)
            if t is None or isinstance(node.test, ast.Compare):
                continue
            r = replace_span(node.test, "not (%s)" % t)
            if r:
                yield ("neg", node.lineno, "if %s -> if not (%s)" % (t, t), r)


def baseline_tests(src_root):
    p = subprocess.run(["/venv/bin/python", "-m", "pytest", "-q", "-p", "no:cacheprovider", "-x", "--co", "-q", "src"],
                       cwd=os.path.dirname(src_root), capture_output=True, text=True)
    return p.returncode


def run_tests(root):
    env = dict(os.environ, PYTHONPATH=os.path.join(root, "src"))
    p = subprocess.run(["/venv/bin/python", "-m", "pytest", "-q", "-p", "no:cacheprovider", "-rf", "src"],
                       cwd=root, capture_output=True, text=True, env=env, timeout=300)
    out = p.stdout
    failed = sorted(l.split(" ")[1] for l in out.splitlines() if l.startswith("FAILED "))
    tail = out.strip().splitlines()[-1] if out.strip() else ""
    return tail, failed


OMNI = r'''
import sys, json, os
sys.path.insert(0, %(verif)r)
os.environ["VERIF_REPO_SRC"] = %(src)r
from sim import boot
ns = boot.boot()
from sim import runner, gen
fams = list(gen.FAMILIES)
found = None
n = 0
for i in range(%(runs)d):
    fam = fams[i %% len(fams)]
    try:
        r = runner.run_seed(ns, 900000 + i, fam, None)
    except Exception as e:
        found = {"sig": "HARNESS:" + type(e).__name__ + ":" + str(e)[:80], "seed": 900000 + i, "family": fam}
        break
    n += 1
    v = [x for x in r.violations if not x.sig.startswith("C08.R6:gap-shrinks:factor<1")]
    if v:
        found = {"sig": v[0].sig, "seed": 900000 + i, "family": fam, "msg": v[0].msg[:160], "all": sorted(set(x.sig for x in v))[:8]}
        break
print("OMNI " + json.dumps({"runs": n, "found": found}))
'''


def evaluate(job):
    idx, relpath, kind, lineno, desc, newtext, runs, base_failed, base_tail_counts = job
    root = os.path.join(SCRATCH, "m%05d" % idx)
    if os.path.exists(root):
        shutil.rmtree(root)
    os.makedirs(root)
    shutil.copytree(REPO_SRC, os.path.join(root, "src"), ignore=shutil.ignore_patterns("__pycache__"))
    for extra in ("pyproject.toml", "setup.cfg", "tox.ini"):
        if os.path.exists(os.path.join("/repo", extra)):
            shutil.copy(os.path.join("/repo", extra), root)
    with open(os.path.join(root, "src", relpath), "w") as f:
        f.write(newtext)
    res = {"idx": idx, "file": relpath, "kind": kind, "line": lineno, "desc": desc}
    try:
        compile(newtext, relpath, "exec")
    except SyntaxError:
        res["status"] = "syntax"
        shutil.rmtree(root)
        return res
    try:
        tail, failed = run_tests(root)
    except Exception as e:
        res["status"] = "tests-error"
        shutil.rmtree(root)
        return res
    counts = " ".join(tail.split(" in ")[0].split())
    if failed != base_failed or counts != base_tail_counts:
        res["status"] = "killed-by-tests"
        res["tests"] = counts
        shutil.rmtree(root)
        return res
    code = OMNI % {"verif": VERIF, "src": os.path.join(root, "src"), "runs": runs}
    env = dict(os.environ, PYTHONHASHSEED="0")
    try:
        p = subprocess.run(["/venv/bin/python", "-c", code], capture_output=True, text=True, env=env, timeout=900)
        line = [l for l in p.stdout.splitlines() if l.startswith("OMNI ")]
        if not line:
            res["status"] = "sim-error"
            res["err"] = (p.stderr or p.stdout)[-300:]
        else:
            o = json.loads(line[0][5:])
            if o["found"]:
                res["status"] = "caught"
                res["by"] = o["found"]["sig"]
                res["seed"] = o["found"]["seed"]
                res["family"] = o["found"]["family"]
                res["after_runs"] = o["runs"]
            else:
                res["status"] = "survived"
                res["runs"] = o["runs"]
    except subprocess.TimeoutExpired:
        res["status"] = "sim-timeout"
    shutil.rmtree(root, ignore_errors=True)
    return res


def main():
    args = sys.argv[1:]
    files = FILES
    maxn = 100000
    runs = 1500
    out = "/tmp/automut_report.json"
    seed = 1
    only_kinds = None
    i = 0
    while i < len(args):
        if args[i] == "--files":
            files = args[i + 1].split(",")
            i += 2
        elif args[i] == "--max":
            maxn = int(args[i + 1])
            i += 2
        elif args[i] == "--runs":
            runs = int(args[i + 1])
            i += 2
        elif args[i] == "--out":
            out = args[i + 1]
            i += 2
        elif args[i] == "--kinds":
            only_kinds = set(args[i + 1].split(","))
            i += 2
        elif args[i] == "--seed":
            seed = int(args[i + 1])
            i += 2
        else:
            raise SystemExit("bad arg " + args[i])
    os.makedirs(SCRATCH, exist_ok=True)
    # baseline
    base = os.path.join(SCRATCH, "base")
    if os.path.exists(base):
        shutil.rmtree(base)
    os.makedirs(base)
    shutil.copytree(REPO_SRC, os.path.join(base, "src"), ignore=shutil.ignore_patterns("__pycache__"))
    for extra in ("pyproject.toml", "setup.cfg", "tox.ini"):
        if os.path.exists(os.path.join("/repo", extra)):
            shutil.copy(os.path.join("/repo", extra), base)
    tail, base_failed = run_tests(base)
    counts = " ".join(tail.split(" in ")[0].split())
    print("baseline:", counts, len(base_failed), "failed")
    shutil.rmtree(base)
    jobs = []
    for rel in files:
        text = open(os.path.join(REPO_SRC, rel)).read()
        seen = set()
        for (kind, lineno, desc, new) in candidates(rel, text):
            if new == text or (lineno, desc) in seen or (only_kinds and kind not in only_kinds):
                continue
            seen.add((lineno, desc))
            jobs.append([rel, kind, lineno, desc, new])
    rng = random.Random(seed)
    rng.shuffle(jobs)
    jobs = jobs[:maxn]
    jobs = [(k, j[0], j[1], j[2], j[3], j[4], runs, base_failed, counts) for k, j in enumerate(jobs)]
    print(len(jobs), "mutants")
    t0 = time.time()
    results = []
    ctx = multiprocessing.get_context("fork")
    with ProcessPoolExecutor(max_workers=int(os.environ.get("VERIF_WORKERS", "16")), mp_context=ctx) as ex:
        for r in ex.map(evaluate, jobs, chunksize=1):
            results.append(r)
            if len(results) % 25 == 0:
                st = {}
                for x in results:
                    st[x["status"]] = st.get(x["status"], 0) + 1
                print(len(results), st, "%.0fs" % (time.time() - t0))
                sys.stdout.flush()
    st = {}
    for x in results:
        st[x["status"]] = st.get(x["status"], 0) + 1
    print("DONE", st, "%.0fs" % (time.time() - t0))
    json.dump({"summary": st, "runs_per_mutant": runs, "results": results}, open(out, "w"), indent=1)
    shutil.rmtree(SCRATCH, ignore_errors=True)


if __name__ == "__main__":
    main()
