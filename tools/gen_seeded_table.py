#!/venv/bin/python
"""Regenerate the per-change table at the end of DESIGN.md section 13 from
seeded/*/meta.json (everything after the marker line is replaced)."""
import glob, json, os, re
ROOT = os.path.dirname(os.path.dirname(os.path.abspath(__file__)))
MARK = "| id | change (first line of the author's notes) | result | first signatures |"
rows = [MARK, "|---|---|---|---|"]
n = caught = 0
for mf in sorted(glob.glob(os.path.join(ROOT, "seeded", "*", "meta.json"))):
    m = json.load(open(mf))
    n += 1
    prop = m["breaks_property"]
    own = m.get("checks", {}).get(prop, {})
    first = (m.get("needs_to_manifest") or "").strip().split("\n")[0][:230].replace("|", "/")
    if m.get("verdict"):
        res = m["verdict"].split(":")[0].split(",")[0]
    elif own.get("exit") == 1:
        res = "caught by %s" % prop
        caught += 1
    else:
        res = "NOT CAUGHT"
    others = [p for p, c in m.get("checks", {}).items() if p != prop and c.get("exit") == 1]
    if others and res.startswith("caught"):
        res += " (also " + ", ".join(others) + ")"
    sigs = ", ".join(own.get("first_signatures", [])[:2]).replace("|", "/")
    rows.append("| %s | %s | %s | %s |" % (m["id"], first, res, sigs))
p = os.path.join(ROOT, "DESIGN.md")
s = open(p).read()
i = s.index(MARK)
s = s[:i] + "\n".join(rows) + "\n"
open(p, "w").write(s)
print("%d changes, %d caught by their own property's quick check" % (n, caught))
