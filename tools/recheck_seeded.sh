#!/bin/sh
# re-evaluates every kept seeded change against the current tree: one line each
cd /verif
for d in seeded/*/; do
  id=$(basename $d); prop=${id%%-*}
  out=$(tools/eval_mutant.sh /verif/seeded/$id $prop 2>&1)
  t=$(echo "$out" | grep -o "demo without=[0-9] with=[0-9]")
  c=$(echo "$out" | grep -o "check $prop exit=[0-9]")
  a=$(echo "$out" | grep -c "DOES NOT APPLY")
  echo "$id | apply_fail=$a | $t | $c"
done
