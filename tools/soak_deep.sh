#!/bin/sh
# usage: tools/soak_deep.sh <first-seed> <last-seed> [budget-seconds-per-check]
# thorough-tier soak (longer histories): every check once per seed, wall-capped
a=$1; b=$2; cap=${3:-150}
s=$a
while [ $s -le $b ]; do
  for p in C02 C03 C04 C05 C06 C07 C08 C09 C10 C11 C12 C13 C14 C15 C16 C17 C18 C19 C20; do
    out=$(VERIF_SEED=$s VERIF_BUDGET_S=$cap ./check $p --tier thorough 2>&1); rc=$?
    if [ $rc -ne 0 ]; then echo "=== seed $s $p exit $rc"; echo "$out" | tail -12; fi
  done
  echo "seed $s done"
  s=$((s+1))
done
