#!/venv/bin/python
"""Determinism self-test: every seed is run twice in this process and the whole
sample again in fresh interpreters under other PYTHONHASHSEEDs and another
worker layout; the SHA-256 of the full event logs must agree.

usage: selftest/determinism.py [N=200] [--child]"""
import hashlib, os, subprocess, sys
VERIF = os.path.dirname(os.path.dirname(os.path.abspath(__file__)))
sys.path.insert(0, VERIF)


def sample(n, lo=0):
    from sim import boot
    ns = boot.boot()
    from sim import runner, gen
    out = []
    fams = gen.FAMILIES
    for i in range(lo, lo + n):
        fam = fams[i % len(fams)]
        a = runner.run_seed(ns, 7000000 + i, fam, None, stop_early=False)
        b = runner.run_seed(ns, 7000000 + i, fam, None, stop_early=False)
        if a.digest != b.digest:
            print("NONDETERMINISTIC within one process: seed %d family %s" % (7000000 + i, fam))
            sys.exit(3)
        out.append(a.digest)
    return out


def main():
    args = [a for a in sys.argv[1:] if not a.startswith("--")]
    n = int(args[0]) if args else 200
    if "--child" in sys.argv:
        lo = int(args[1]) if len(args) > 1 else 0
        for d in sample(n, lo):
            print(d)
        return 0
    ref = None
    runs = 0
    for hs, layout in (("0", 1), ("12345", 1), ("99", 4)):
        env = dict(os.environ, PYTHONHASHSEED=hs, VERIF_HASHSEED=hs)
        digs = []
        per = (n + layout - 1) // layout
        procs = [subprocess.Popen([sys.executable, os.path.abspath(__file__), str(min(per, n - k * per)), str(k * per), "--child"],
                                  env=env, stdout=subprocess.PIPE, text=True) for k in range(layout) if n - k * per > 0]
        for p in procs:
            o, _ = p.communicate(timeout=1200)
            if p.returncode != 0:
                print(o[-500:])
                print("determinism child failed (exit %s)" % p.returncode)
                return 2
            digs.extend(o.split())
        runs += len(digs)
        if ref is None:
            ref = digs
        elif digs != ref:
            bad = [i for i, (x, y) in enumerate(zip(ref, digs)) if x != y]
            print("NONDETERMINISTIC across interpreters (PYTHONHASHSEED=%s, %d processes): sample indexes %s" % (hs, layout, bad[:10]))
            return 3
    print("determinism ok: %d seeds x (2 in-process runs x 3 interpreter configurations), digest %s"
          % (n, hashlib.sha256("".join(ref).encode()).hexdigest()[:16]))
    return 0


if __name__ == "__main__":
    sys.exit(main())
