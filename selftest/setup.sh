#!/bin/sh
# MANIFEST.setup_cmd: nothing to build (pure Python, /venv has Twisted); prove that
# the client imports under the simulated reactor and that runs are deterministic.
set -e
cd "$(dirname "$0")/.."
/venv/bin/python - <<'PY'
import sys
sys.path.insert(0, ".")
from sim import boot
ns = boot.boot()
print("simulated reactor installed; mqtt imported from", ns.src)
PY
/venv/bin/python selftest/determinism.py 120
